#![no_main]
// C05 + C11, structure-aware: the bytes select one spelling per cell from per-column vocabularies (valid, odd
// and invalid spellings), so most inputs get past the header and many past every row.  C05 oracle: the library
// entry point returns a report or a non-empty diagnostic that names the file, a row or a security; no panic
// outside the recorded overflow findings.  C11 oracle: if the reader accepts the text, R(W(R(t))) = R(t).
use libfuzzer_sys::fuzz_target;
mod common;
use acb::app::outfmt::model::AcbWriter;
use acb::portfolio::{CsvTx, Tx};

const COLS: [&str; 15] = ["security", "trade date", "settlement date", "action", "shares", "amount/share", "commission", "currency", "exchange rate", "commission currency", "commission exchange rate", "superficial loss", "split ratio", "affiliate", "memo"];
const SEC: [&str; 6] = ["FOO", "BAR", "XYZ.TO", " FOO ", "foo", ""];
const ACT: [&str; 10] = ["Buy", "Sell", "Sell", "Buy", "RoC", "SfLA", "Split", "buy", "SELL", "Foo"];
const NUM: [&str; 20] = ["1", "10", "100", "7", "3", "0.5", "3.3333333333", "12.34", "0.0001", "1000", "0", "", "-1", "1e3", "abc", "1,000", "999999999999", "0.00000000001", " 5 ", "+2"];
const CUR: [&str; 8] = ["", "", "CAD", "USD", "EUR", "cad", " usd ", "US$"];
const RATE: [&str; 8] = ["", "", "1.3", "1", "0.75", "0", "-1", "x"];
const SFL: [&str; 10] = ["", "", "", "0", "-1.5", "-1.5!", "1", "!", "0!", "-100"];
const SPLIT: [&str; 10] = ["2-for-1", "1-for-2", "3-for-2", "1.0-for-3.0", "1-for-3", "", "0-for-1", "x-for-y", "2 - for - 1", "2-for-0"];
const AFF: [&str; 8] = ["", "", "Spouse", "(R)", "Default", "spouse (r)", "(R) x", " default "];
const MEMO: [&str; 5] = ["", "memo", "with, comma", "quote\"s", "line\nbreak"];

fn esc(c: &str) -> String { if c.contains(',') || c.contains('"') || c.contains('\n') { format!("\"{}\"", c.replace('"', "\"\"")) } else { c.to_string() } }
fn pick<'a>(t: &'a [&'a str], b: u8) -> &'a str { t[b as usize % t.len()] }
fn day(n: i64) -> String { (acbverif::gen::ymd(2016, 1, 4) + std::time::Duration::from_secs(86400 * n.max(0) as u64)).to_string() }
fn special_date(b: u8) -> Option<String> {
    match b { 250 => Some(String::new()), 251 => Some("2016-13-01".into()), 252 => Some("garbage".into()), 253 => Some("2016-02-30".into()), 254 => Some("16-01-04".into()), 255 => Some("2016/01/04".into()), _ => None }
}

fn read(text: &str) -> Result<Vec<Tx>, String> {
    let mut rd = acb::util::rw::DescribedReader::from_string("cells.csv".into(), text.to_string());
    let csvtxs = acb::portfolio::io::tx_csv::parse_tx_csv(&mut rd, 0, &Default::default(), &mut acb::util::rw::WriteHandle::empty_write_handle())?;
    csvtxs.into_iter().map(Tx::try_from).collect()
}

fuzz_target!(|data: &[u8]| {
    common::init();
    if data.len() < 2 + 16 { return; }
    let (opt, hdr) = (data[0], data[1]);
    // header: all columns, or drop one optional column, or add an unknown one, or swap two
    let mut cols: Vec<usize> = (0..15).collect();
    match hdr % 8 { 1 => { cols.remove(6 + (hdr as usize / 8) % 9); } 2 => { cols.swap(0, 3 + (hdr as usize / 8) % 10); } 3 => { cols.swap(4, 5); } _ => {} }
    let mut text = cols.iter().map(|&c| COLS[c]).collect::<Vec<_>>().join(",");
    if hdr % 8 == 4 { text.push_str(",extra"); }
    text.push('\n');
    let mut nrows = 0;
    for row in data[2..].chunks_exact(16).take(40) {
        let split = pick(&ACT, row[3]) == "Split";
        let cells: Vec<String> = cols.iter().map(|&c| match c {
            0 => pick(&SEC, row[0]).to_string(),
            1 => special_date(row[1]).unwrap_or_else(|| day(row[1] as i64 % 120)),
            2 => special_date(row[2]).unwrap_or_else(|| day(row[1] as i64 % 120 + row[2] as i64 % 4)),
            3 => pick(&ACT, row[3]).to_string(),
            4 => if split && row[4] % 4 != 0 { String::new() } else { pick(&NUM, row[4]).to_string() },
            5 => if split && row[5] % 4 != 0 { String::new() } else { pick(&NUM, row[5]).to_string() },
            6 => if row[6] % 3 == 0 { String::new() } else { pick(&NUM, row[6] / 3).to_string() },
            7 => pick(&CUR, row[7]).to_string(),
            8 => pick(&RATE, row[8]).to_string(),
            9 => pick(&CUR, row[9]).to_string(),
            10 => pick(&RATE, row[10]).to_string(),
            11 => pick(&SFL, row[11]).to_string(),
            12 => if split || row[12] % 16 == 0 { pick(&SPLIT, row[12] / 16).to_string() } else { String::new() },
            13 => pick(&AFF, row[13]).to_string(),
            _ => pick(&MEMO, row[14]).to_string(),
        }).collect();
        text.push_str(&cells.iter().map(|c| esc(c)).collect::<Vec<_>>().join(","));
        if hdr % 8 == 4 { text.push_str(",x"); }
        if row[15] == 255 { text.push_str(",overlong"); }
        text.push('\n');
        nrows += 1;
    }
    let only = std::env::var("ACBVERIF_FUZZ_PROP").ok();
    let want = |id: &str| only.as_deref().map(|o| o == id).unwrap_or(true);
    acbverif::observe::reset_globals(acbverif::observe::far_today());
    if want("C11") {
        common::guarded(|| {
            let Ok(x) = read(&text) else { common::stat(false, 0); return };
            common::stat(!x.is_empty(), x.len() as u64);
            let csvtxs: Vec<CsvTx> = x.iter().map(|t| t.to_csvtx()).collect();
            let mut buf = acb::util::rw::StringBuffer::new();
            if acb::portfolio::io::tx_csv::write_txs_to_csv(&csvtxs, &mut buf).is_err() { common::fail_case("C11", "writer failed on transactions the reader produced", &text); }
            let w = buf.export_string();
            let x2 = match read(&w) { Ok(v) => v, Err(e) => common::fail_case("C11", &format!("reader rejects the writer's output: {e}\n{w}"), &text) };
            if x.len() != x2.len() { common::fail_case("C11", "row count changed in the round trip", &text); }
            let only_default = x.iter().all(|t| t.affiliate.id() == "default" || t.affiliate.is_global());
            for (a, b) in x.iter().zip(x2.iter()) { if let Some(d) = acbverif::props::c11::tx_diff(a, b, only_default) { common::fail_case("C11", &format!("transaction changed in the round trip: {d}\n--- input\n{text}--- written\n{w}"), &text); } }
        });
    }
    if want("C05") {
        let full = opt & 1 == 1; let costs = opt & 2 == 2; let csvw = opt & 4 == 4; let summary = opt & 8 == 8; let annual = opt & 16 == 16;
        common::guarded(|| {
            let readers = vec![acb::util::rw::DescribedReader::from_string("cells.csv".into(), text.clone())];
            let (oh, _ob) = acb::util::rw::WriteHandle::string_buff_write_handle();
            let (eh, eb) = acb::util::rw::WriteHandle::string_buff_write_handle();
            let loader = acbverif::observe::synthetic_loader(2016..=2016);
            let mut failed = false; let mut msg = String::new();
            if summary {
                let mut o = acb::app::Options::default(); o.split_annual_summary_gains = annual;
                let cut = acbverif::gen::ymd(2016, 3, 1);
                match async_std::task::block_on(acb::app::run_acb_app_summary_to_model(cut, readers, Default::default(), o, loader, eh)) {
                    Ok(d) => { let csvtxs: Vec<CsvTx> = d.txs.into_iter().map(|t| t.into()).collect(); let mut b = acb::util::rw::StringBuffer::new(); let _ = acb::portfolio::io::tx_csv::write_txs_to_csv(&csvtxs, &mut b); }
                    Err(e) => { failed = true; if let Some(g) = e.general_error { msg.push_str(&format!("Error: {g}\n")); } for (s, m) in e.sec_errors { msg.push_str(&format!("Error in {s}: {m}\n")); } }
                }
            } else {
                let mut tw; let mut cw;
                let w: &mut dyn AcbWriter = if csvw { cw = acb::app::outfmt::csv::CsvWriter::new_to_writer(oh); &mut cw } else { tw = acb::app::outfmt::text::TextWriter::new(oh); &mut tw };
                failed = async_std::task::block_on(acb::app::run_acb_app_to_writer(w, readers, Default::default(), &Default::default(), full, costs, loader, eh)).is_err();
            }
            msg.push_str(eb.borrow().as_str());
            common::stat(!failed && nrows > 0, nrows as u64);
            if failed {
                let m = msg.to_lowercase();
                if m.trim().is_empty() { common::fail_case("C05", "the run failed without any message", &text); }
                let attributed = m.contains("cells.csv") || m.contains("row ") || m.contains("error in ") || m.contains("csv headers") || ["foo", "bar", "xyz.to"].iter().any(|s| m.contains(s));
                if !attributed { common::fail_case("C05", &format!("the error message attributes the problem to no file, row or security: {:?}", msg.trim()), &text); }
            }
        });
    }
});
