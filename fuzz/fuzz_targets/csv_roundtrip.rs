#![no_main]
// C11, reader-first direction: any bytes the reader accepts must satisfy R(W(R(b))) = R(b).
use libfuzzer_sys::fuzz_target;
mod common;
use acb::portfolio::{CsvTx, Tx};

fn read(text: &str) -> Result<Vec<Tx>, String> {
    let mut rd = acb::util::rw::DescribedReader::from_string("fuzz.csv".into(), text.to_string());
    let csvtxs = acb::portfolio::io::tx_csv::parse_tx_csv(&mut rd, 0, &Default::default(), &mut acb::util::rw::WriteHandle::empty_write_handle())?;
    csvtxs.into_iter().map(Tx::try_from).collect()
}

fuzz_target!(|data: &[u8]| {
    common::init();
    let Ok(text) = std::str::from_utf8(data) else { return };
    acbverif::observe::reset_globals(acbverif::observe::far_today());
    common::guarded(|| {
        let Ok(x) = read(text) else { common::stat(false, 0); return };
        common::stat(!x.is_empty(), x.len() as u64);
        // split-ratio terms beyond 1e9 are outside the stated domain of the round trip (see DESIGN C11)
        for t in &x { if let acb::portfolio::TxActionSpecifics::Split(s) = &t.action_specifics { let big = rust_decimal::Decimal::from(1_000_000_000u64); if *s.ratio.pre_split >= big || *s.ratio.post_split >= big { return; } } }
        let csvtxs: Vec<CsvTx> = x.iter().map(|t| t.to_csvtx()).collect();
        let mut buf = acb::util::rw::StringBuffer::new();
        if acb::portfolio::io::tx_csv::write_txs_to_csv(&csvtxs, &mut buf).is_err() { common::fail("writer failed on transactions the reader produced"); }
        let w = buf.export_string();
        let x2 = match read(&w) { Ok(v) => v, Err(e) => common::fail(&format!("reader rejects the writer's output: {e}\n{w}")) };
        if x.len() != x2.len() { common::fail("row count changed in the round trip"); }
        let only_default = x.iter().all(|t| t.affiliate.id() == "default" || t.affiliate.is_global());
        for (a, b) in x.iter().zip(x2.iter()) { if let Some(d) = acbverif::props::c11::tx_diff(a, b, only_default) { common::fail(&format!("transaction changed in the round trip: {d}\n{w}")); } }
    });
});
