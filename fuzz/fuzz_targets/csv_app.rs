#![no_main]
// C05: whatever the bytes (inside the stated numeric domain), the library entry point used by the CLI
// and the web UI returns a report or a diagnostic; it never panics.
use libfuzzer_sys::fuzz_target;
mod common;
use acb::app::outfmt::model::AcbWriter;
use std::str::FromStr;

fn in_domain(data: &[u8]) -> bool {
    // every cell that parses as a number must be < 1e12 with <= 10 decimals; years 1900..=2100
    let mut rdr = csv::ReaderBuilder::new().has_headers(false).flexible(true).from_reader(data);
    for rec in rdr.byte_records().flatten() {
        for cell in rec.iter() {
            let Ok(s) = std::str::from_utf8(cell) else { continue };
            let t = s.trim().trim_end_matches('!');
            if let Ok(d) = rust_decimal::Decimal::from_str(t) { if d.abs() >= rust_decimal::Decimal::from(1_000_000_000_000u64) || d.scale() > 10 { return false; } }
            for part in t.split("-for-") { if let Ok(d) = rust_decimal::Decimal::from_str(part) { if d.abs() >= rust_decimal::Decimal::from(1_000_000_000_000u64) || d.scale() > 10 { return false; } } }
            if t.len() >= 8 && t.as_bytes()[0].is_ascii_digit() { if let Some(Ok(y)) = t.get(..4).map(|p| p.parse::<i32>()) { if t.as_bytes().get(4) == Some(&b'-') && !(1900..=2100).contains(&y) { return false; } } }
        }
    }
    true
}

fuzz_target!(|data: &[u8]| {
    common::init();
    if data.len() < 2 { return; }
    let (opt, body) = (data[0], &data[1..]);
    if !in_domain(body) { return; }
    let Ok(text) = std::str::from_utf8(body) else {
        // non-UTF-8 goes through a real file elsewhere (C05 damaged sub); the string reader needs UTF-8
        return;
    };
    acbverif::observe::reset_globals(acbverif::observe::far_today());
    let full = opt & 1 == 1; let costs = opt & 2 == 2; let csvw = opt & 4 == 4; let summary = opt & 8 == 8; let annual = opt & 16 == 16;
    common::guarded(|| {
        let readers = vec![acb::util::rw::DescribedReader::from_string("fuzz.csv".into(), text.to_string())];
        let (oh, _ob) = acb::util::rw::WriteHandle::string_buff_write_handle();
        let (eh, eb) = acb::util::rw::WriteHandle::string_buff_write_handle();
        if summary {
            let mut o = acb::app::Options::default(); o.split_annual_summary_gains = annual;
            let cut = acbverif::gen::ymd(2020, 6, 30);
            let r = async_std::task::block_on(acb::app::run_acb_app_summary_to_model(cut, readers, Default::default(), o, acbverif::observe::empty_loader(), eh));
            common::stat(r.is_ok(), body.len() as u64);
            if let Ok(d) = r { let csvtxs: Vec<acb::portfolio::CsvTx> = d.txs.into_iter().map(|t| t.into()).collect(); let mut b = acb::util::rw::StringBuffer::new(); let _ = acb::portfolio::io::tx_csv::write_txs_to_csv(&csvtxs, &mut b); }
        } else {
            let mut tw; let mut cw;
            let w: &mut dyn AcbWriter = if csvw { cw = acb::app::outfmt::csv::CsvWriter::new_to_writer(oh); &mut cw } else { tw = acb::app::outfmt::text::TextWriter::new(oh); &mut tw };
            let r = async_std::task::block_on(acb::app::run_acb_app_to_writer(w, readers, Default::default(), &Default::default(), full, costs, acbverif::observe::empty_loader(), eh));
            common::stat(r.is_ok(), body.len() as u64);
            if r.is_err() && eb.borrow().as_str().trim().is_empty() { common::fail("run failed without any message"); }
        }
    });
});
