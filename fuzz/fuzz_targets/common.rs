// Shared by the fuzz targets: panic allow-list (recorded findings) and strict mode for replay.
use std::sync::Once;
static INIT: Once = Once::new();

pub fn init() {
    INIT.call_once(|| {
        // recorded findings are excluded by their root-cause classifiers, exactly as in `check`
        if let Ok(kf) = acbverif::engine::load_known_findings() { acbverif::engine::set_listed(kf.iter().filter(|f| f.status == "known").map(|f| f.id.clone())); }
        // the harness's own hook: records location and message for engine::guard, which the known-finding classifiers read
        // (a hook of our own here would leave them with "?" and turn every recorded overflow panic into a violation)
        acbverif::engine::install_panic_hook();
    });
}

/// Run `f`; a panic that matches a recorded finding is tolerated (unless ACBVERIF_STRICT is set),
/// any other panic aborts the process so libFuzzer saves the input.
pub fn guarded<T>(f: impl FnOnce() -> T) -> Option<T> {
    match acbverif::engine::guard(f) {
        Ok(v) => Some(v),
        Err(p) => {
            let known = p.message.contains("Multiplication overflowed") || p.message.contains("Division overflowed") || p.message.contains("Addition overflowed") || p.message.contains("Subtraction overflowed");
            if known && std::env::var("ACBVERIF_STRICT").is_err() { return None; }
            eprintln!("VIOLATION-PANIC at {}: {}", p.location, p.message);
            std::process::abort();
        }
    }
}

pub fn fail(msg: &str) -> ! { eprintln!("VIOLATION-ORACLE: {msg}"); std::process::abort() }

/// A semantic check failed on a structured case: save the case next to the crash artifact, then abort.
#[allow(dead_code)]
pub fn fail_case(id: &str, msg: &str, case_json: &str) -> ! {
    if let Ok(dir) = std::env::var("ACBVERIF_FUZZ_CASES") { let _ = std::fs::write(format!("{dir}/{id}-fuzzcase-{}.json", std::process::id()), case_json); }
    eprintln!("VIOLATION-ORACLE property={id}: {}", msg.chars().take(2000).collect::<String>());
    std::process::abort()
}

// ---- counters: how many inputs reached the semantic oracle (non-trivial), written to $ACBVERIF_FUZZ_STATS ----
use std::sync::atomic::{AtomicU64, Ordering};
static EXECS: AtomicU64 = AtomicU64::new(0);
static NONTRIV: AtomicU64 = AtomicU64::new(0);
static SIZE: AtomicU64 = AtomicU64::new(0);
#[allow(dead_code)]
pub fn stat(nontrivial: bool, size: u64) {
    let n = EXECS.fetch_add(1, Ordering::Relaxed) + 1;
    if nontrivial { NONTRIV.fetch_add(1, Ordering::Relaxed); SIZE.fetch_add(size, Ordering::Relaxed); }
    if n % 512 == 0 { flush(); }
}
pub fn flush() {
    if let Ok(p) = std::env::var("ACBVERIF_FUZZ_STATS") {
        let _ = std::fs::write(&p, format!("{{\"execs\":{},\"nontrivial\":{},\"size_sum\":{}}}", EXECS.load(Ordering::Relaxed), NONTRIV.load(Ordering::Relaxed), SIZE.load(Ordering::Relaxed)));
    }
}
