#![no_main]
// C05/C20: arbitrary statement text (pages separated by form feed) parses or errors; never a panic;
// a successful parse returns holdings whose count matches the bullets between header and total.
use libfuzzer_sys::fuzz_target;
mod common;

fuzz_target!(|data: &[u8]| {
    common::init();
    let Ok(text) = std::str::from_utf8(data) else { return };
    let pages: Vec<String> = text.split('\u{c}').map(|s| s.to_string()).collect();
    common::guarded(|| {
        let r = acb::peripheral::questrade_statement_fmv_impl::parse_statement_text(pages.iter());
        common::stat(r.as_ref().map(|s| !s.fmvs.is_empty()).unwrap_or(false), text.len() as u64);
        match r {
            Ok(st) => { for f in &st.fmvs { if f.security_desc.trim().is_empty() { common::fail("holding with empty description"); } } }
            Err(e) => { if e.trim().is_empty() { common::fail("empty error"); } }
        }
    });
});
