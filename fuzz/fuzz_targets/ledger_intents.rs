#![no_main]
// C01/C02/C03/C04, coverage-guided: the bytes are decoded into generator intents (the same ones the
// proptest subs draw at random), the history builder turns them into a valid multi-security history,
// and the tool's ledger is compared with the exact reference model (C01, C02), the model-free
// accounting identity (C03) and the accept side of C04.  Coverage feedback comes from acb itself.
use libfuzzer_sys::fuzz_target;
mod common;
use acbverif::engine::{Obs, Verdict};
use acbverif::gen::{build_history, build_scenario, GenParams, Intent};
use acbverif::props::common::LedgerCase;

fn intents(data: &[u8]) -> Vec<Intent> {
    data.chunks_exact(34).map(|c| {
        let w = |i: usize| u16::from_le_bytes([c[2 * i], c[2 * i + 1]]);
        Intent { kind: w(0), sec: w(1), af: w(2), date_ref: w(3), date_off: w(4), settle: w(5), qty: w(6), price: w(7), comm: w(8), cur: w(9), ccur: w(10), frac: w(11), rel: w(12), split: w(13), flag: w(14), key: w(15), sfl: w(16) }
    }).collect()
}

fuzz_target!(|data: &[u8]| {
    common::init();
    if data.len() < 1 + 34 * 3 { return; }
    let mode = data[0];
    let its = intents(&data[1..]);
    if its.len() > 41 { return; }
    let build = |id: &str| -> Option<LedgerCase> {
        // each property's own input domain (C03's identity presumes no registered affiliates and no manual SfLA rows)
        if mode % 4 == 3 || id == "C02" {
            // superficial-loss scenario builder: head, 1..3 preamble events, the rest around the sale
            let npre = 1 + (mode as usize / 4) % 3;
            if its.len() < 1 + npre { return None; }
            let mut sp = acbverif::props::c02::scen_params();
            if id == "C03" { sp.afs = vec!["", "Spouse", "Kid"]; sp.max_events = 8; }
            let b = build_scenario(&its[0], &its[1..1 + npre], &its[1 + npre..(1 + npre + sp.max_events).min(its.len())], &sp);
            Some(LedgerCase { rows: b.rows, opening: b.opening, tags: b.tags })
        } else {
            let mut p = if id == "C03" { acbverif::props::c03::ledger_params(acbverif::engine::Tier::Thorough) } else { GenParams::ledger() };
            p.max_rows = 40;
            if mode % 4 == 1 { p.tame_numbers = true; }
            if mode % 4 == 2 { p.year_edge = true; }
            let b = build_history(&its[1..], &p, &its[0]);
            Some(LedgerCase { rows: b.rows, opening: b.opening, tags: b.tags })
        }
    };
    let mut obs = Obs::default();
    let checks: [(&str, fn(&LedgerCase, &mut Obs) -> Verdict); 4] = [("C01", acbverif::props::c01::check), ("C02", acbverif::props::c02::check_window), ("C03", acbverif::props::c03::check), ("C04", acbverif::props::c04::check_accept)];
    let only = std::env::var("ACBVERIF_FUZZ_PROP").ok();
    for (id, f) in checks {
        if only.as_deref().map(|o| o != id).unwrap_or(false) { continue; }
        let Some(case) = build(id) else { continue };
        common::stat(case.rows.len() >= 4, case.rows.len() as u64);
        match f(&case, &mut obs) {
            Verdict::Fail(m) => common::fail_case(id, &m, &case.to_json().dump()),
            _ => {}
        }
    }
});
