#![no_main]
// C05/C19: arbitrary confirmation text either parses or yields an error; never a panic.
use libfuzzer_sys::fuzz_target;
mod common;

fuzz_target!(|data: &[u8]| {
    common::init();
    let Ok(text) = std::str::from_utf8(data) else { return };
    common::guarded(|| {
        let p = std::path::Path::new("fuzz.txt");
        let r = acb::peripheral::broker::etrade::parse_pdf_text(text, p);
        common::stat(r.is_ok(), text.len() as u64);
        match r {
            Ok(acb::peripheral::broker::etrade::EtradePdfContent::TradeConfirmation(txs)) => { for t in txs { if t.num_shares.is_sign_negative() { common::fail("negative share count parsed"); } } }
            Ok(_) => {}
            Err(e) => { if e.trim().is_empty() { common::fail("empty error"); } }
        }
    });
});
