#![no_main]
// Every property, coverage-guided: the bytes are the entropy of the property's own proptest strategy (pass-through RNG), the
// generated case goes through the same check function (same oracle, same known-finding classifiers) as in `check`.
// ACBVERIF_FUZZ_PROP selects the property, ACBVERIF_FUZZ_SUB the sub-check (default: the first one).
use libfuzzer_sys::fuzz_target;
mod common;
use acbverif::engine::{Tier, Verdict};
use std::sync::OnceLock;

static SEL: OnceLock<(String, String)> = OnceLock::new();

fuzz_target!(|data: &[u8]| {
    common::init();
    if data.len() < 16 { return; }
    let (pid, sub) = SEL.get_or_init(|| (std::env::var("ACBVERIF_FUZZ_PROP").unwrap_or_else(|_| "C01".into()), std::env::var("ACBVERIF_FUZZ_SUB").unwrap_or_default()));
    let reg = acbverif::props::registry();
    let Some(prop) = reg.iter().find(|p| p.id == pid) else { return };
    let Some(s) = prop.subs.iter().find(|s| sub.is_empty() || s.name() == sub) else { return };
    let r = acbverif::engine::guard(|| s.check_from_entropy(Tier::Quick, data));
    match r {
        Err(p) => { eprintln!("VIOLATION-PANIC (harness or acb outside a guarded call) at {}: {}", p.location, p.message); std::process::abort(); }
        Ok(None) => { common::stat(false, 0); }
        Ok(Some((verdict, case, nt))) => {
            common::stat(nt, data.len() as u64);
            if let Verdict::Fail(m) = verdict {
                let body = format!("{{\"property\":\"{pid}\",\"sub\":\"{}\",\"tier\":\"fuzz\",\"case\":{}}}", s.name(), case.dump());
                common::fail_case(pid, &m, &body);
            }
        }
    }
});
