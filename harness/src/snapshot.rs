//! Plain-string snapshots of the render model, for the two-run (metamorphic / differential) checks.
use crate::bigrat::Rat;
use acb::app::AppRenderResult;
use acb::portfolio::render::RenderTable;
use std::collections::BTreeMap;

#[derive(Clone, Debug, PartialEq, Eq)]
pub struct TableSnap { pub header: Vec<String>, pub rows: Vec<Vec<String>>, pub footer: Vec<String>, pub notes: Vec<String>, pub errors: Vec<String> }

impl TableSnap {
    pub fn of(t: &RenderTable) -> TableSnap { TableSnap { header: t.header.clone(), rows: t.rows.clone(), footer: t.footer.clone(), notes: t.notes.clone(), errors: t.errors.clone() } }
    pub fn sorted_notes(&self) -> Vec<String> { let mut n = self.notes.clone(); n.sort(); n }
    /// Differences, ignoring the order of notes.
    pub fn diff(&self, o: &TableSnap, what: &str) -> Option<String> {
        if self.header != o.header { return Some(format!("{what}: headers differ: {:?} vs {:?}", self.header, o.header)); }
        if self.rows.len() != o.rows.len() { return Some(format!("{what}: {} rows vs {} rows", self.rows.len(), o.rows.len())); }
        for (i, (a, b)) in self.rows.iter().zip(o.rows.iter()).enumerate() {
            if !(a.len() == b.len() && a.iter().zip(b.iter()).all(|(x, y)| cell_eq(x, y))) {
                let col = a.iter().zip(b.iter()).position(|(x, y)| !cell_eq(x, y)).unwrap_or(0);
                return Some(format!("{what}: row #{i} column '{}' differs: {:?} vs {:?}\n   row A: {:?}\n   row B: {:?}", self.header.get(col).cloned().unwrap_or_default(), a.get(col), b.get(col), a, b));
            }
        }
        if !(self.footer.len() == o.footer.len() && self.footer.iter().zip(o.footer.iter()).all(|(x, y)| cell_eq(x, y))) { return Some(format!("{what}: footers differ: {:?} vs {:?}", self.footer, o.footer)); }
        if self.sorted_notes() != o.sorted_notes() { return Some(format!("{what}: notes differ: {:?} vs {:?}", self.notes, o.notes)); }
        if self.errors != o.errors { return Some(format!("{what}: errors differ: {:?} vs {:?}", self.errors, o.errors)); }
        None
    }
    pub fn to_bytes(&self) -> String { format!("{:?}|{:?}|{:?}|{:?}|{:?}", self.header, self.rows, self.footer, self.notes, self.errors) }
    /// Replace every money figure by a canonical rendering of its value (so $0.00 == $0.000).
    pub fn canonical_values(&self) -> TableSnap {
        let canon = |c: &String| -> String { c.lines().map(|l| match money(l) { Some(v) => format!("${}", v.to_decimal_string(40).unwrap_or_else(|| v.approx())), None => l.to_string() }).collect::<Vec<_>>().join("\n") };
        TableSnap { header: self.header.clone(), rows: self.rows.iter().map(|r| r.iter().map(canon).collect()).collect(), footer: self.footer.iter().map(canon).collect(), notes: self.notes.clone(), errors: self.errors.clone() }
    }
}

/// Cells are equal when identical, or when every line holding a money figure agrees within 1e-9
/// (the last digits of 28-digit sums depend on hash-map summation order, which is C09's business).
pub fn cell_eq(a: &str, b: &str) -> bool {
    if a == b { return true; }
    let (la, lb): (Vec<&str>, Vec<&str>) = (a.lines().collect(), b.lines().collect());
    if la.len() != lb.len() { return false; }
    let tol = crate::bigrat::tol9();
    la.iter().zip(lb.iter()).all(|(x, y)| x == y || match (money_loose(x), money_loose(y)) { (Some((p, v, q)), Some((p2, w, q2))) => p == p2 && q == q2 && v.close(&w, &tol), _ => false })
}

/// A line of the form `<prefix><money><suffix>` (e.g. "-$12.5 *", "(SfL -$3.2; 1/2)"): split around the first money figure.
pub fn money_loose(s: &str) -> Option<(String, Rat, String)> {
    let start = s.find('$')?;
    let (mut pre, rest) = (s[..start].to_string(), &s[start + 1..]);
    let end = rest.find(|c: char| !(c.is_ascii_digit() || c == '.' || c == ',')).unwrap_or(rest.len());
    let mut v = Rat::parse(&rest[..end].replace(',', ""))?;
    if pre.ends_with('-') { pre.pop(); v = v.neg(); } else if pre.ends_with('+') { pre.pop(); }
    Some((pre, v, rest[end..].to_string()))
}

#[derive(Clone, Debug, PartialEq, Eq)]
pub struct Snap { pub secs: BTreeMap<String, TableSnap>, pub aggregate: TableSnap, pub costs: Option<(TableSnap, TableSnap)> }

impl Snap {
    pub fn of(r: &AppRenderResult) -> Snap {
        Snap {
            secs: r.security_tables.iter().map(|(k, v)| (k.clone(), TableSnap::of(v))).collect(),
            aggregate: TableSnap::of(&r.aggregate_gains_table),
            costs: r.costs_tables.as_ref().map(|c| (TableSnap::of(&c.total), TableSnap::of(&c.yearly))),
        }
    }
    pub fn diff(&self, o: &Snap) -> Option<String> {
        let ka: Vec<&String> = self.secs.keys().collect();
        let kb: Vec<&String> = o.secs.keys().collect();
        if ka != kb { return Some(format!("securities differ: {:?} vs {:?}", ka, kb)); }
        for (k, t) in &self.secs { if let Some(d) = t.diff(&o.secs[k], &format!("table {k}")) { return Some(d); } }
        if let Some(d) = self.aggregate.diff(&o.aggregate, "aggregate gains") { return Some(d); }
        match (&self.costs, &o.costs) {
            (None, None) => None,
            (Some(a), Some(b)) => a.0.diff(&b.0, "total costs").or_else(|| a.1.diff(&b.1, "yearly max costs")),
            _ => Some("costs tables present in one run only".into()),
        }
    }
    /// Affiliate display spelling (first spelling seen wins in the tool) is not a figure: compare ids.
    pub fn normalized(&self) -> Snap {
        let mut c = self.clone();
        for t in c.secs.values_mut() {
            if let Some(ix) = t.header.iter().position(|h| h == "Affiliate") { for r in t.rows.iter_mut() { r[ix] = r[ix].to_lowercase(); } }
        }
        if let Some((a, b)) = c.costs.as_mut() {
            for n in a.notes.iter_mut().chain(b.notes.iter_mut()) { *n = n.to_lowercase(); }
            // any day with the year's highest total may be shown: keep Year and Total only
            for r in b.rows.iter_mut() { r.truncate(3); r.remove(1); }
            b.header.truncate(3); if b.header.len() > 1 { b.header.remove(1); }
        }
        c
    }
    pub fn to_bytes(&self) -> String {
        let mut s = String::new();
        for (k, t) in &self.secs { s += &format!("[{k}]{}\n", t.to_bytes()); }
        s += &format!("[agg]{}\n", self.aggregate.to_bytes());
        if let Some((a, b)) = &self.costs { s += &format!("[costs]{}\n[yearly]{}\n", a.to_bytes(), b.to_bytes()); }
        s
    }
}

/// "$1.23", "-$1.23", "+$1.2", "$0" -> exact value.
pub fn money(s: &str) -> Option<Rat> {
    let t = s.trim();
    let (neg, t) = if let Some(r) = t.strip_prefix('-') { (true, r) } else if let Some(r) = t.strip_prefix('+') { (false, r) } else { (false, t) };
    let t = t.strip_prefix('$')?;
    let v = Rat::parse(&t.replace(',', ""))?;
    Some(if neg { v.neg() } else { v })
}

/// Yearly figures of a security footer: (total, [(year, value)]).
pub fn footer_gains(t: &TableSnap) -> Option<(Rat, Vec<(i32, Rat)>)> {
    let labels: Vec<&str> = t.footer.get(8)?.lines().collect();
    let vals: Vec<&str> = t.footer.get(9)?.lines().collect();
    if labels.len() != vals.len() || labels.first() != Some(&"Total") { return None; }
    let total = money(vals[0])?;
    let mut ys = vec![];
    for (l, v) in labels.iter().zip(vals.iter()).skip(1) { ys.push((l.trim().parse().ok()?, money(v)?)); }
    Some((total, ys))
}

/// Aggregate table: (since inception, [(year, value)]).
pub fn aggregate_gains(t: &TableSnap) -> Option<(Rat, Vec<(i32, Rat)>)> {
    let mut total = None;
    let mut ys = vec![];
    for r in &t.rows { if r[0] == "Since inception" { total = money(&r[1]); } else { ys.push((r[0].trim().parse().ok()?, money(&r[1])?)); } }
    Some((total?, ys))
}
