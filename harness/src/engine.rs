//! Engine: seeds, worker processes, proptest driving, shrinking, replay files, evidence,
//! known-findings matching, watchdog.  Exit codes: 0 held, 1 violation, 2 inconclusive.
use json::{object, JsonValue};
use proptest::strategy::BoxedStrategy;
use proptest::test_runner::{Config, RngSeed, TestCaseError, TestError, TestRunner};
use std::cell::RefCell;
use std::collections::{BTreeMap, BTreeSet};
use std::hash::{Hash, Hasher};
use std::path::{Path, PathBuf};
use std::time::{Duration, Instant};

#[derive(Clone, Copy, PartialEq, Eq, Debug)]
pub enum Tier { Quick, Thorough }
impl Tier {
    pub fn name(&self) -> &'static str { match self { Tier::Quick => "quick", Tier::Thorough => "thorough" } }
    pub fn pick<T>(&self, q: T, t: T) -> T { match self { Tier::Quick => q, Tier::Thorough => t } }
}

/// Outcome of checking one case.
pub enum Verdict {
    Pass,
    /// Failing case that matches a listed known finding (finding id, detail).
    Known(String, String),
    /// Case not checked (outside the stated domain / shape avoided); reason key.
    Skip(String),
    Fail(String),
}

/// Per-case observation sink handed to the oracle.
#[derive(Default)]
pub struct Obs {
    pub classes: Vec<String>,
    pub nontrivial: bool,
    /// extra key making the case "distinct" (defaults to the case json)
    pub shape: Option<String>,
    /// for checks that enumerate many points inside one generated case (e.g. crash points):
    /// number of points explored, and one key per non-trivial point
    pub sub_evals: u64,
    pub nt_keys: Vec<String>,
}
impl Obs {
    pub fn class(&mut self, c: impl Into<String>) { self.classes.push(c.into()); }
    pub fn nt(&mut self, c: impl Into<String>) { self.nontrivial = true; self.classes.push(format!("NT:{}", c.into())); }
}

// ---------- panic capture ----------
#[derive(Clone, Debug)]
pub struct PanicInfo { pub location: String, pub message: String }
impl PanicInfo {
    pub fn in_harness(&self) -> bool { self.location.contains("/verif/harness/") || self.location.starts_with("src/") && !self.location.contains("repo") && self.location.contains("props") }
    pub fn sig(&self) -> String { format!("{} :: {}", self.location, self.message.lines().next().unwrap_or("")) }
}
thread_local! { static LAST_PANIC: RefCell<Option<PanicInfo>> = RefCell::new(None); }

pub fn install_panic_hook() {
    std::panic::set_hook(Box::new(|info| {
        let loc = info.location().map(|l| format!("{}:{}", l.file(), l.line())).unwrap_or_default();
        let msg = if let Some(s) = info.payload().downcast_ref::<&str>() { s.to_string() } else if let Some(s) = info.payload().downcast_ref::<String>() { s.clone() } else { "<non-string panic payload>".to_string() };
        LAST_PANIC.with(|p| *p.borrow_mut() = Some(PanicInfo { location: loc, message: msg }));
    }));
}

/// Run code of the system under test, converting a panic into a value.
pub fn guard<T>(f: impl FnOnce() -> T) -> Result<T, PanicInfo> {
    LAST_PANIC.with(|p| *p.borrow_mut() = None);
    match std::panic::catch_unwind(std::panic::AssertUnwindSafe(f)) {
        Ok(v) => Ok(v),
        Err(_) => Err(LAST_PANIC.with(|p| p.borrow_mut().take()).unwrap_or(PanicInfo { location: "?".into(), message: "?".into() })),
    }
}

// ---------- seeds ----------
pub fn mix(seed: u64, parts: &[&str], idx: u64) -> u64 {
    let mut h: u64 = 0xcbf29ce484222325 ^ seed.wrapping_mul(0x9E3779B97F4A7C15);
    for p in parts { for b in p.bytes() { h ^= b as u64; h = h.wrapping_mul(0x100000001b3); } h ^= 0xff; h = h.wrapping_mul(0x100000001b3); }
    h ^= idx.wrapping_mul(0xD6E8FEB86659FD93);
    // splitmix finaliser
    let mut z = h.wrapping_add(0x9E3779B97F4A7C15);
    z = (z ^ (z >> 30)).wrapping_mul(0xBF58476D1CE4E5B9);
    z = (z ^ (z >> 27)).wrapping_mul(0x94D049BB133111EB);
    z ^ (z >> 31)
}
pub fn hash_str(s: &str) -> u64 { let mut h = std::collections::hash_map::DefaultHasher::new(); s.hash(&mut h); h.finish() }

// ---------- sub-check definition ----------
pub type CheckFn<C> = fn(&C, &mut Obs) -> Verdict;

/// A sub-check of a property: a strategy producing concrete cases, their JSON form, and the oracle.
pub struct Sub<C: Clone + std::fmt::Debug + 'static> {
    pub name: &'static str,
    pub cases_quick: u64,
    pub cases_thorough: u64,
    pub strategy: Box<dyn Fn(Tier) -> BoxedStrategy<C>>,
    pub to_json: fn(&C) -> JsonValue,
    pub from_json: fn(&JsonValue) -> Option<C>,
    pub check: CheckFn<C>,
}

/// Type-erased runner so properties can list heterogeneous sub-checks.
pub trait SubDyn {
    fn name(&self) -> &'static str;
    fn cases(&self, tier: Tier) -> u64;
    fn run_worker(&self, tier: Tier, seed: u64, cases: u64, stats: &mut Stats, prop: &str);
    fn replay(&self, v: &JsonValue) -> Option<(Verdict, Obs)>;
    /// Coverage-guided fuzzing of the same strategy: the bytes are the entropy the strategy draws from (proptest's pass-through
    /// RNG), so a fuzzer mutating the bytes mutates the generated case.  Returns the verdict, the case as JSON and whether the
    /// case was non-trivial.
    fn check_from_entropy(&self, tier: Tier, data: &[u8]) -> Option<(Verdict, JsonValue, bool)>;
}

impl<C: Clone + std::fmt::Debug + 'static> SubDyn for Sub<C> {
    fn name(&self) -> &'static str { self.name }
    fn cases(&self, tier: Tier) -> u64 { tier.pick(self.cases_quick, self.cases_thorough) }
    fn replay(&self, v: &JsonValue) -> Option<(Verdict, Obs)> {
        let c = (self.from_json)(v)?;
        let mut obs = Obs::default();
        let verdict = (self.check)(&c, &mut obs);
        Some((verdict, obs))
    }
    fn check_from_entropy(&self, tier: Tier, data: &[u8]) -> Option<(Verdict, JsonValue, bool)> {
        use proptest::strategy::{Strategy, ValueTree};
        use proptest::test_runner::{RngAlgorithm, TestRng};
        let cfg = Config { failure_persistence: None, ..Config::default() };
        // the fuzzer's bytes first; once they are used up the stream continues pseudo-randomly (seeded by the bytes) instead of
        // with zeros, which would drive filtering strategies into their rejection limits
        let mut buf = data.to_vec();
        let mut x = hash_str(&format!("{:?}", &data[..data.len().min(64)])) | 1;
        while buf.len() < data.len() + 16384 { x ^= x << 13; x ^= x >> 7; x ^= x << 17; buf.extend_from_slice(&x.to_le_bytes()); }
        let mut runner = TestRunner::new_with_rng(cfg, TestRng::from_seed(RngAlgorithm::PassThrough, &buf));
        if std::env::var("ACBVERIF_DEBUG").is_ok() { let a = proptest::prelude::any::<u64>().new_tree(&mut runner).map(|t| t.current()).unwrap_or(0); let b = proptest::prelude::any::<u64>().new_tree(&mut runner).map(|t| t.current()).unwrap_or(0); eprintln!("DEBUG buf len {} first draws {:x} {:x}", buf.len(), a, b); }
        let tree = (self.strategy)(tier).new_tree(&mut runner).ok()?;
        let case = tree.current();
        let mut obs = Obs::default();
        let verdict = (self.check)(&case, &mut obs);
        let nt = obs.nontrivial || !obs.nt_keys.is_empty();
        Some((verdict, (self.to_json)(&case), nt))
    }
    fn run_worker(&self, tier: Tier, seed: u64, cases: u64, stats: &mut Stats, prop: &str) {
        if cases == 0 { return; }
        let cfg = Config {
            cases: cases as u32,
            failure_persistence: None,
            rng_seed: RngSeed::Fixed(seed),
            max_shrink_iters: 4000,
            max_shrink_time: 60_000,
            max_global_rejects: 1_000_000,
            verbose: 0,
            ..Config::default()
        };
        let mut runner = TestRunner::new(cfg);
        let strat = (self.strategy)(tier);
        let failed = RefCell::new(false);
        let st = RefCell::new(std::mem::take(stats));
        let check = self.check;
        let to_json = self.to_json;
        let sub = self.name;
        let res = runner.run(&strat, |case| {
            let mut obs = Obs::default();
            heartbeat();
            if trace_on() { trace_case(sub, &to_json(&case)); }
            let verdict = check(&case, &mut obs);
            let counting = !*failed.borrow();
            match verdict {
                Verdict::Pass => {
                    if counting {
                        let mut s = st.borrow_mut();
                        s.evaluations += obs.sub_evals.max(1);
                        for c in &obs.classes { *s.classes.entry(format!("{sub}/{c}")).or_insert(0) += 1; }
                        for k in &obs.nt_keys { s.nontrivial.insert(hash_str(&format!("{sub}|{k}"))); }
                        // checks that count non-trivial units inside a case (C14: crash points) still show what a case looks like
                        if !obs.nontrivial && !obs.nt_keys.is_empty() && s.samples.len() < 3 { let units: Vec<String> = obs.nt_keys.iter().take(4).cloned().collect(); s.samples.push(object! { sub: sub, case: to_json(&case), nontrivial_units_in_this_case: obs.nt_keys.len(), first_units: units }); }
                        if obs.nontrivial {
                            let j = to_json(&case);
                            let key = match &obs.shape { Some(k) => k.clone(), None => j.dump() };
                            if s.nontrivial.insert(hash_str(&format!("{sub}|{key}"))) && s.samples.len() < 3 { s.samples.push(object! { sub: sub, case: j }); }
                        }
                    }
                    Ok(())
                }
                Verdict::Known(id, detail) => {
                    if counting {
                        let mut s = st.borrow_mut();
                        s.evaluations += 1;
                        *s.excluded_known.entry(id.clone()).or_insert(0) += 1;
                        s.known_detail.entry(id).or_insert(detail);
                    }
                    Ok(())
                }
                Verdict::Skip(why) => {
                    if counting { *st.borrow_mut().skipped.entry(format!("{sub}/{why}")).or_insert(0) += 1; }
                    Ok(())
                }
                Verdict::Fail(msg) => {
                    *failed.borrow_mut() = true;
                    Err(TestCaseError::fail(msg))
                }
            }
        });
        *stats = st.into_inner();
        match res {
            Ok(()) => {}
            Err(TestError::Fail(reason, case)) => {
                let j = (self.to_json)(&case);
                stats.failures.push(Failure { prop: prop.to_string(), sub: sub.to_string(), message: reason.message().to_string(), case: j });
            }
            Err(TestError::Abort(reason)) => {
                stats.infra_errors.push(format!("{sub}: proptest aborted: {}", reason.message()));
            }
        }
    }
}

// ---------- stats ----------
#[derive(Clone, Debug)]
pub struct Failure { pub prop: String, pub sub: String, pub message: String, pub case: JsonValue }

#[derive(Default, Debug)]
pub struct Stats {
    pub evaluations: u64,
    pub classes: BTreeMap<String, u64>,
    pub nontrivial: BTreeSet<u64>,
    pub samples: Vec<JsonValue>,
    pub excluded_known: BTreeMap<String, u64>,
    pub known_detail: BTreeMap<String, String>,
    pub skipped: BTreeMap<String, u64>,
    pub failures: Vec<Failure>,
    pub infra_errors: Vec<String>,
    pub extra: BTreeMap<String, JsonValue>,
}

impl Stats {
    pub fn to_json(&self) -> JsonValue {
        let mut classes = JsonValue::new_object();
        for (k, v) in &self.classes { classes[k.as_str()] = (*v).into(); }
        let mut ex = JsonValue::new_object();
        for (k, v) in &self.excluded_known { ex[k.as_str()] = (*v).into(); }
        let mut kd = JsonValue::new_object();
        for (k, v) in &self.known_detail { kd[k.as_str()] = v.as_str().into(); }
        let mut sk = JsonValue::new_object();
        for (k, v) in &self.skipped { sk[k.as_str()] = (*v).into(); }
        let mut extra = JsonValue::new_object();
        for (k, v) in &self.extra { extra[k.as_str()] = v.clone(); }
        object! {
            evaluations: self.evaluations,
            classes: classes,
            nontrivial: self.nontrivial.iter().map(|h| format!("{:016x}", h)).collect::<Vec<_>>(),
            samples: self.samples.clone(),
            excluded_known: ex,
            known_detail: kd,
            skipped: sk,
            failures: self.failures.iter().map(|f| object! { prop: f.prop.as_str(), sub: f.sub.as_str(), message: f.message.as_str(), case: f.case.clone() }).collect::<Vec<_>>(),
            infra_errors: self.infra_errors.clone(),
            extra: extra,
        }
    }
    pub fn merge_json(&mut self, v: &JsonValue) {
        self.evaluations += v["evaluations"].as_u64().unwrap_or(0);
        for (k, x) in v["classes"].entries() { *self.classes.entry(k.to_string()).or_insert(0) += x.as_u64().unwrap_or(0); }
        for h in v["nontrivial"].members() { if let Some(s) = h.as_str() { if let Ok(x) = u64::from_str_radix(s, 16) { self.nontrivial.insert(x); } } }
        for s in v["samples"].members() { if self.samples.len() < 6 { self.samples.push(s.clone()); } }
        for (k, x) in v["excluded_known"].entries() { *self.excluded_known.entry(k.to_string()).or_insert(0) += x.as_u64().unwrap_or(0); }
        for (k, x) in v["known_detail"].entries() { self.known_detail.entry(k.to_string()).or_insert(x.as_str().unwrap_or("").to_string()); }
        for (k, x) in v["skipped"].entries() { *self.skipped.entry(k.to_string()).or_insert(0) += x.as_u64().unwrap_or(0); }
        for f in v["failures"].members() {
            self.failures.push(Failure { prop: f["prop"].as_str().unwrap_or("").into(), sub: f["sub"].as_str().unwrap_or("").into(), message: f["message"].as_str().unwrap_or("").into(), case: f["case"].clone() });
        }
        for e in v["infra_errors"].members() { self.infra_errors.push(e.as_str().unwrap_or("").to_string()); }
        for (k, x) in v["extra"].entries() {
            // numeric extras are summed, others keep first
            match self.extra.get(k) {
                Some(old) if old.is_number() && x.is_number() => { let s = old.as_f64().unwrap_or(0.0) + x.as_f64().unwrap_or(0.0); self.extra.insert(k.to_string(), s.into()); }
                Some(_) => {}
                None => { self.extra.insert(k.to_string(), x.clone()); }
            }
        }
    }
}

// ---------- heartbeat / watchdog ----------
thread_local! { static HEARTBEAT: RefCell<Option<(PathBuf, Instant)>> = RefCell::new(None); }
pub fn set_heartbeat_file(p: PathBuf) { let _ = std::fs::write(&p, b"0"); HEARTBEAT.with(|h| *h.borrow_mut() = Some((p, Instant::now()))); }
pub fn heartbeat() {
    HEARTBEAT.with(|h| {
        if let Some((p, last)) = h.borrow_mut().as_mut() {
            if last.elapsed() > Duration::from_secs(2) { let _ = std::fs::write(&*p, b"1"); *last = Instant::now(); }
        }
    });
}

// ---------- known findings ----------
#[derive(Clone, Debug)]
pub struct KnownFinding { pub id: String, pub property: String, pub status: String, pub what: String, pub sub: String, pub minimal: JsonValue, pub also_seen_by: Vec<String> }

pub fn verif_root() -> PathBuf {
    if let Ok(p) = std::env::var("VERIF_ROOT") { return PathBuf::from(p); }
    // harness/target/release/check -> up 3
    let exe = std::env::current_exe().unwrap();
    let mut p = exe.as_path();
    for _ in 0..4 { p = p.parent().unwrap_or(Path::new("/verif")); }
    if p.join("known_findings.json").exists() { p.to_path_buf() } else { PathBuf::from("/verif") }
}

pub fn load_known_findings() -> Result<Vec<KnownFinding>, String> {
    let p = verif_root().join("known_findings.json");
    let text = std::fs::read_to_string(&p).map_err(|e| format!("{}: {e}", p.display()))?;
    let v = json::parse(&text).map_err(|e| format!("{}: {e}", p.display()))?;
    let mut out = vec![];
    for f in v["findings"].members() {
        out.push(KnownFinding {
            id: f["id"].as_str().unwrap_or("").to_string(),
            property: f["property"].as_str().unwrap_or("").to_string(),
            status: f["status"].as_str().unwrap_or("").to_string(),
            what: f["what"].as_str().unwrap_or("").to_string(),
            sub: f["sub"].as_str().unwrap_or("").to_string(),
            minimal: f["minimal"].clone(),
            also_seen_by: f["also_seen_by"].members().filter_map(|x| x.as_str().map(|s| s.to_string())).collect(),
        });
    }
    Ok(out)
}

thread_local! { static KNOWN_IDS: RefCell<BTreeSet<String>> = RefCell::new(BTreeSet::new()); }
/// Is `id` listed with status `known` for the property being checked?  Oracles call this before
/// returning `Verdict::Known`; an unlisted classifier hit is an ordinary failure.
pub fn is_listed(id: &str) -> bool { KNOWN_IDS.with(|k| k.borrow().contains(id)) }
pub fn set_listed(ids: impl IntoIterator<Item = String>) { KNOWN_IDS.with(|k| *k.borrow_mut() = ids.into_iter().collect()); }

/// Helper: classify a failure as a known finding if listed, else fail.
pub fn known_or_fail(id: &str, detail: String) -> Verdict {
    if is_listed(id) { Verdict::Known(id.to_string(), detail) } else { Verdict::Fail(format!("[{id}] {detail}")) }
}

// ---------- case tracing (only when re-running a crashed worker) ----------
thread_local! { static TRACE: RefCell<Option<PathBuf>> = RefCell::new(None); }
pub fn trace_enable(p: PathBuf) { TRACE.with(|t| *t.borrow_mut() = Some(p)); }
pub fn trace_case(sub: &str, case: &JsonValue) {
    TRACE.with(|t| { if let Some(p) = t.borrow().as_ref() { let _ = std::fs::write(p, object! { sub: sub, case: case.clone() }.dump()); } });
}
pub fn trace_on() -> bool { TRACE.with(|t| t.borrow().is_some()) }
