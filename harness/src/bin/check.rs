//! `check <ID> [--tier quick|thorough] [--replay FILE]` — see DESIGN.md §2.
use acbverif::engine::*;
use acbverif::props::{registry, PropDef};
use json::{object, JsonValue};
use std::path::PathBuf;
use std::process::{Command, Stdio};
use std::time::{Duration, Instant, SystemTime};

fn usage() -> ! {
    eprintln!("usage: check <ID>|selftest|list [--tier quick|thorough] [--replay FILE] [--workers N]");
    std::process::exit(2)
}

struct Args { id: String, tier: Tier, replay: Option<String>, entropy: Option<String>, sub: Option<String>, worker: Option<(u64, u64)>, out: Option<String>, workers: Option<usize>, cases_scale: f64 }

fn parse_args() -> Args {
    let mut it = std::env::args().skip(1);
    let id = it.next().unwrap_or_else(|| usage());
    let mut a = Args { id, tier: match std::env::var("VERIF_TIER").as_deref() { Ok("thorough") => Tier::Thorough, _ => Tier::Quick }, replay: None, entropy: None, sub: None, worker: None, out: None, workers: None, cases_scale: 1.0 };
    while let Some(x) = it.next() {
        match x.as_str() {
            "--tier" => a.tier = match it.next().as_deref() { Some("quick") => Tier::Quick, Some("thorough") => Tier::Thorough, _ => usage() },
            "--replay" => a.replay = it.next(),
            "--entropy" => a.entropy = it.next(),
            "--sub" => a.sub = it.next(),
            "--worker" => { let i = it.next().and_then(|s| s.parse().ok()).unwrap_or_else(|| usage()); let n = it.next().and_then(|s| s.parse().ok()).unwrap_or_else(|| usage()); a.worker = Some((i, n)); }
            "--out" => a.out = it.next(),
            "--workers" => a.workers = it.next().and_then(|s| s.parse().ok()),
            "--scale" => a.cases_scale = it.next().and_then(|s| s.parse().ok()).unwrap_or(1.0),
            "quick" => a.tier = Tier::Quick,
            "thorough" => a.tier = Tier::Thorough,
            _ => usage(),
        }
    }
    a
}

fn seed_env() -> u64 { std::env::var("VERIF_SEED").ok().and_then(|s| s.trim().parse::<i64>().ok()).map(|v| v as u64).unwrap_or(20260927) }

fn find_prop(id: &str) -> PropDef {
    registry().into_iter().find(|p| p.id.eq_ignore_ascii_case(id)).unwrap_or_else(|| { eprintln!("unknown property {id}"); std::process::exit(2) })
}

fn listed_for(prop: &str) -> Vec<KnownFinding> {
    match load_known_findings() {
        Ok(v) => v.into_iter().filter(|f| f.property == prop || f.also_seen_by.iter().any(|p| p == prop)).collect(),
        Err(e) => { eprintln!("cannot load known findings: {e}"); std::process::exit(2) }
    }
}

fn run_worker(args: &Args, idx: u64, of: u64) {
    let prop = find_prop(&args.id);
    let seed = seed_env();
    let kf = listed_for(prop.id);
    set_listed(kf.iter().filter(|f| f.status == "known").map(|f| f.id.clone()));
    let out = PathBuf::from(args.out.clone().unwrap_or_else(|| usage()));
    set_heartbeat_file(out.with_extension("hb"));
    if let Ok(p) = std::env::var("ACBVERIF_TRACE") { acbverif::engine::trace_enable(PathBuf::from(p)); }
    let mut stats = Stats::default();
    if idx == 0 {
        // replay tier: committed regression inputs + minimal inputs of listed findings
        let dir = verif_root().join("replays").join("regress");
        let mut files: Vec<PathBuf> = std::fs::read_dir(&dir).map(|d| d.filter_map(|e| e.ok()).map(|e| e.path()).collect()).unwrap_or_default();
        files.sort();
        let mut n_replayed = 0u64;
        for f in files {
            let name = f.file_name().unwrap().to_string_lossy().to_string();
            if !name.starts_with(&format!("{}-", prop.id)) || !name.ends_with(".json") { continue; }
            let Ok(text) = std::fs::read_to_string(&f) else { continue };
            let Ok(v) = json::parse(&text) else { stats.infra_errors.push(format!("unparsable replay {name}")); continue };
            let sub = v["sub"].as_str().unwrap_or("");
            let Some(s) = prop.subs.iter().find(|s| s.name() == sub) else { stats.infra_errors.push(format!("replay {name}: unknown sub {sub}")); continue };
            match s.replay(&v["case"]) {
                None => stats.infra_errors.push(format!("replay {name}: cannot decode case")),
                Some((Verdict::Fail(m), _)) => stats.failures.push(Failure { prop: prop.id.into(), sub: sub.into(), message: format!("regression replay {name}: {m}"), case: v["case"].clone() }),
                Some((Verdict::Known(id, d), _)) => { *stats.excluded_known.entry(id.clone()).or_insert(0) += 1; stats.known_detail.entry(id).or_insert(d); }
                Some(_) => {}
            }
            n_replayed += 1;
        }
        stats.extra.insert("regression_replays".into(), n_replayed.into());
        for f in kf.iter().filter(|f| f.status == "known" && !f.minimal.is_null() && f.property == prop.id) {
            let Some(s) = prop.subs.iter().find(|s| s.name() == f.sub) else { stats.infra_errors.push(format!("finding {}: unknown sub {}", f.id, f.sub)); continue };
            match s.replay(&f.minimal) {
                Some((Verdict::Known(id, d), _)) => { *stats.excluded_known.entry(id.clone()).or_insert(0) += 1; stats.known_detail.entry(id.clone()).or_insert(d); stats.extra.insert(format!("known_reproduced/{id}"), 1.into()); }
                Some((Verdict::Fail(m), _)) => stats.failures.push(Failure { prop: prop.id.into(), sub: f.sub.clone(), message: format!("minimal input of {} fails differently: {m}", f.id), case: f.minimal.clone() }),
                Some(_) => { stats.extra.insert(format!("known_not_reproduced/{}", f.id), 1.into()); }
                None => stats.infra_errors.push(format!("finding {}: cannot decode minimal case", f.id)),
            }
        }
        // fixed findings: their minimal inputs must pass now
        for f in kf.iter().filter(|f| f.status == "fixed" && !f.minimal.is_null() && f.property == prop.id) {
            let Some(s) = prop.subs.iter().find(|s| s.name() == f.sub) else { continue };
            match s.replay(&f.minimal) {
                Some((Verdict::Fail(m), _)) => stats.failures.push(Failure { prop: prop.id.into(), sub: f.sub.clone(), message: format!("fixed finding {} is back: {m}", f.id), case: f.minimal.clone() }),
                Some((Verdict::Known(id, d), _)) => stats.failures.push(Failure { prop: prop.id.into(), sub: f.sub.clone(), message: format!("fixed finding {} is back (classified {id}): {d}", f.id), case: f.minimal.clone() }),
                _ => { stats.extra.insert(format!("fixed_still_fixed/{}", f.id), 1.into()); }
            }
        }
    }
    for s in &prop.subs {
        let total = ((s.cases(args.tier) as f64) * args.cases_scale).ceil() as u64;
        let mine = total / of + if idx < total % of { 1 } else { 0 };
        let sseed = mix(seed, &[prop.id, s.name()], idx);
        s.run_worker(args.tier, sseed, mine, &mut stats, prop.id);
        let _ = std::fs::write(&out, stats.to_json().dump());
    }
    if let Some(extra) = prop.extra {
        extra(args.tier, mix(seed, &[prop.id, "extra"], idx), idx, of, &mut stats);
    }
    std::fs::write(&out, stats.to_json().dump()).expect("write worker output");
}

fn replay_file(args: &Args, file: &str) -> i32 {
    let prop = find_prop(&args.id);
    let kf = listed_for(prop.id);
    set_listed(kf.iter().filter(|f| f.status == "known").map(|f| f.id.clone()));
    let text = std::fs::read_to_string(file).unwrap_or_else(|e| { eprintln!("{file}: {e}"); std::process::exit(2) });
    let v = json::parse(&text).unwrap_or_else(|e| { eprintln!("{file}: {e}"); std::process::exit(2) });
    let sub = v["sub"].as_str().unwrap_or("");
    let Some(s) = prop.subs.iter().find(|s| s.name() == sub) else { eprintln!("unknown sub {sub}"); return 2 };
    let reps = prop.replay_repeats.max(1);
    for _ in 0..reps {
        match s.replay(&v["case"]) {
            None => { eprintln!("cannot decode case"); return 2; }
            Some((Verdict::Fail(m), _)) => { println!("FAIL: {m}"); println!("VIOLATION property={} replay={}", prop.id, file); return 1; }
            Some((Verdict::Known(id, d), _)) => { println!("KNOWN-FINDING: property={} {id}: {d}", prop.id); return 0; }
            Some((Verdict::Skip(w), _)) => { println!("SKIP: {w}"); }
            Some((Verdict::Pass, obs)) => { if reps == 1 { println!("PASS classes={:?}", obs.classes); } }
        }
    }
    println!("PASS");
    0
}

fn main() {
    install_panic_hook();
    let args = parse_args();
    if args.id == "selftest" {
        let vec = verif_root().join("harness/testdata/bigrat_vectors.txt");
        match acbverif::bigrat::selftest(vec.to_str().filter(|_| vec.exists())) {
            Ok(n) => { println!("bigrat selftest ok ({n} vectors, python vectors: {})", vec.exists()); }
            Err(e) => { eprintln!("bigrat selftest FAILED: {e}"); std::process::exit(2); }
        }
        match acbverif::model::selftest() { Ok(n) => println!("model selftest ok ({n} cases)"), Err(e) => { eprintln!("model selftest FAILED: {e}"); std::process::exit(2); } }
        return;
    }
    if args.id == "list" { for p in registry() { println!("{} {}", p.id, p.subs.iter().map(|s| s.name()).collect::<Vec<_>>().join(",")); } return; }
    if let Some((i, n)) = args.worker { run_worker(&args, i, n); return; }
    if let Some(f) = &args.replay { std::process::exit(replay_file(&args, f)); }
    if let Some(f) = &args.entropy {
        // an input of the strategy_bytes fuzz target: the bytes are the entropy of the property's strategy
        let prop = find_prop(&args.id);
        let kf = listed_for(prop.id);
        set_listed(kf.iter().filter(|f| f.status == "known").map(|f| f.id.clone()));
        let data = std::fs::read(f).unwrap_or_else(|e| { eprintln!("{f}: {e}"); std::process::exit(2) });
        let Some(s) = prop.subs.iter().find(|s| args.sub.as_deref().map(|n| n == s.name()).unwrap_or(true)) else { eprintln!("unknown sub"); std::process::exit(2) };
        match s.check_from_entropy(args.tier, &data) {
            None => { println!("no case generated from these bytes"); std::process::exit(0) }
            Some((Verdict::Fail(m), case, _)) => { println!("FAIL: {m}"); let p = verif_root().join("replays").join("found").join(format!("{}-{}-entropy-{:016x}.json", prop.id, s.name(), acbverif::engine::hash_str(&case.dump()))); let _ = std::fs::create_dir_all(p.parent().unwrap()); let _ = std::fs::write(&p, json::object! { property: prop.id, sub: s.name(), case: case }.pretty(1)); println!("VIOLATION property={} replay={}", prop.id, p.display()); std::process::exit(1) }
            Some((Verdict::Known(id, d), _, _)) => { println!("KNOWN-FINDING: property={} {id}: {}", prop.id, d.lines().next().unwrap_or("")); std::process::exit(0) }
            Some((Verdict::Skip(w), _, _)) => { println!("SKIP: {w}"); std::process::exit(0) }
            Some((Verdict::Pass, case, nt)) => { println!("PASS nontrivial={nt} case-bytes={}", case.dump().len()); std::process::exit(0) }
        }
    }

    // ---------- parent ----------
    let t0 = Instant::now();
    let prop = find_prop(&args.id);
    let seed = seed_env();
    let kf = listed_for(prop.id);
    let ncpu = std::thread::available_parallelism().map(|n| n.get()).unwrap_or(4);
    let workers = args.workers.unwrap_or(ncpu.min(16)).max(1).min(prop.max_workers.max(1));
    let tmp = std::env::temp_dir().join(format!("acbverif-{}-{}", prop.id, std::process::id()));
    let _ = std::fs::remove_dir_all(&tmp);
    std::fs::create_dir_all(&tmp).expect("tmp dir");
    let exe = std::env::current_exe().unwrap();
    let spawn = |i: usize, trace: Option<&PathBuf>| {
        let out = tmp.join(format!("w{i}.json"));
        let mut c = Command::new(&exe);
        c.arg(prop.id).arg("--tier").arg(args.tier.name()).arg("--worker").arg(i.to_string()).arg(workers.to_string()).arg("--out").arg(&out)
            .arg("--scale").arg(args.cases_scale.to_string())
            .env("VERIF_SEED", (seed as i64).to_string()).env("TMPDIR", &tmp).env("HOME", &tmp)
            .stdin(Stdio::null()).stdout(Stdio::null()).stderr(Stdio::from(std::fs::File::create(tmp.join(format!("w{i}.err"))).unwrap()));
        if let Some(t) = trace { c.env("ACBVERIF_TRACE", t); }
        (c.spawn().expect("spawn worker"), out)
    };
    let mut children: Vec<_> = (0..workers).map(|i| { let (c, o) = spawn(i, None); (i, c, o, false) }).collect();
    let stale_limit = Duration::from_secs(std::env::var("ACBVERIF_WATCHDOG_S").ok().and_then(|s| s.parse().ok()).unwrap_or(240));
    let mut inconclusive: Vec<String> = vec![];
    let mut crashed: Vec<usize> = vec![];
    loop {
        let mut running = 0;
        for (i, c, out, done) in children.iter_mut() {
            if *done { continue; }
            match c.try_wait() {
                Ok(Some(st)) => { *done = true; if !st.success() { crashed.push(*i); eprintln!("worker {i} exited abnormally: {st}"); } }
                Ok(None) => {
                    running += 1;
                    let hb = out.with_extension("hb");
                    let age = std::fs::metadata(&hb).and_then(|m| m.modified()).ok().and_then(|m| SystemTime::now().duration_since(m).ok()).unwrap_or(Duration::ZERO);
                    if age > stale_limit {
                        let _ = c.kill(); let _ = c.wait(); *done = true;
                        inconclusive.push(format!("worker {i}: no progress for {}s (watchdog); killed", age.as_secs()));
                    }
                }
                Err(e) => { *done = true; inconclusive.push(format!("worker {i}: wait error {e}")); }
            }
        }
        if running == 0 { break; }
        std::thread::sleep(Duration::from_millis(50));
    }
    let mut stats = Stats::default();
    // crashed workers: re-run once with case tracing to identify the in-flight case
    for i in crashed {
        let trace = tmp.join(format!("w{i}.trace"));
        let (mut c, _o) = spawn(i, Some(&trace));
        let st = c.wait();
        let ok = st.as_ref().map(|s| s.success()).unwrap_or(false);
        if ok { inconclusive.push(format!("worker {i} crashed once but not on re-run")); continue; }
        let errtail = std::fs::read_to_string(tmp.join(format!("w{i}.err"))).unwrap_or_default();
        let tail: String = errtail.lines().rev().take(8).collect::<Vec<_>>().into_iter().rev().collect::<Vec<_>>().join(" | ");
        match std::fs::read_to_string(&trace).ok().and_then(|t| json::parse(&t).ok()) {
            Some(v) if prop.abort_is_violation => stats.failures.push(Failure { prop: prop.id.into(), sub: v["sub"].as_str().unwrap_or("").into(), message: format!("worker process died (abort/stack overflow/signal) while running this case: {:?}; stderr: {tail}", st), case: v["case"].clone() }),
            _ => inconclusive.push(format!("worker {i} died ({:?}); stderr: {tail}", st)),
        }
    }
    for (i, _, out, _) in &children {
        match std::fs::read_to_string(out).ok().and_then(|t| json::parse(&t).ok()) {
            Some(v) => stats.merge_json(&v),
            None => { if !inconclusive.iter().any(|m| m.contains(&format!("worker {i}"))) && !stats.failures.iter().any(|f| f.message.contains("worker process died")) { inconclusive.push(format!("worker {i}: no output")); } }
        }
    }
    inconclusive.extend(stats.infra_errors.iter().cloned());

    // ---------- report ----------
    let root = verif_root();
    let mut violations = 0;
    let found_dir = root.join("replays").join("found");
    let _ = std::fs::create_dir_all(&found_dir);
    let mut seen = std::collections::BTreeSet::new();
    for f in &stats.failures {
        let body = object! { property: prop.id, sub: f.sub.as_str(), seed: seed as i64, tier: args.tier.name(), message: f.message.as_str(), case: f.case.clone() };
        let h = hash_str(&f.case.dump());
        if !seen.insert((f.sub.clone(), h)) { continue; }
        let path = found_dir.join(format!("{}-{}-{:016x}.json", prop.id, f.sub, h));
        let _ = std::fs::write(&path, body.pretty(1));
        let first = f.message.lines().next().unwrap_or("");
        println!("FAIL [{}] {}", f.sub, first);
        for l in f.message.lines().skip(1).take(60) { println!("    {l}"); }
        println!("VIOLATION property={} replay={}", prop.id, path.display());
        violations += 1;
    }
    for f in kf.iter().filter(|f| f.status == "known") {
        let n = stats.excluded_known.get(&f.id).copied().unwrap_or(0);
        if n > 0 { println!("KNOWN-FINDING: property={} {} {} [seen {n}x this run]", prop.id, f.id, f.what); }
        else if f.property == prop.id { println!("note: listed finding {} was not reproduced in this run", f.id); }
    }
    let wall = t0.elapsed().as_secs_f64();
    let mut classes = JsonValue::new_object();
    for (k, v) in &stats.classes { classes[k.as_str()] = (*v).into(); }
    let mut ex = JsonValue::new_object();
    for (k, v) in &stats.excluded_known { ex[k.as_str()] = (*v).into(); }
    let mut sk = JsonValue::new_object();
    for (k, v) in &stats.skipped { sk[k.as_str()] = (*v).into(); }
    let mut extra = JsonValue::new_object();
    for (k, v) in &stats.extra { extra[k.as_str()] = v.clone(); }
    let mut coverage = object! {
        evaluations: stats.evaluations,
        distinct_nontrivial: stats.nontrivial.len(),
        rule: prop.rule,
        samples: stats.samples.clone(),
        classes: classes,
        excluded_known: ex,
        skipped: sk,
        workers: workers,
        cases_per_second: if wall > 0.0 { (stats.evaluations as f64 / wall).round() } else { 0.0 },
        extra: extra,
    };
    if prop.exhaustive { coverage["exhaustive"] = true.into(); }
    let ev = object! {
        property_id: prop.id,
        tier: args.tier.name(),
        seed: seed as i64,
        level: prop.level,
        coverage: coverage,
        assumptions: prop.assumptions.iter().map(|s| s.to_string()).collect::<Vec<_>>(),
        wall_s: (wall * 100.0).round() / 100.0,
        violations: violations,
        inconclusive: inconclusive.clone(),
    };
    // runs against a deliberately broken tree (bin/mutant.sh) must not overwrite the evidence of the real tree
    let evdir = std::env::var("ACBVERIF_EVIDENCE_DIR").map(std::path::PathBuf::from).unwrap_or_else(|_| root.join("evidence"));
    let _ = std::fs::create_dir_all(&evdir);
    std::fs::write(evdir.join(format!("{}.json", prop.id)), ev.pretty(1)).expect("write evidence");
    let _ = std::fs::remove_dir_all(&tmp);
    println!("{} {}: evaluations={} distinct_nontrivial={} excluded_known={} violations={} wall={:.1}s", prop.id, args.tier.name(), stats.evaluations, stats.nontrivial.len(), stats.excluded_known.values().sum::<u64>(), violations, wall);
    if violations > 0 { std::process::exit(1); }
    if !inconclusive.is_empty() { for m in &inconclusive { eprintln!("INCONCLUSIVE: {m}"); } std::process::exit(2); }
}
