//! C18 — Questrade conversion keeps every trade and conserves USD cash.
use super::PropDef;
use crate::engine::{guard, known_or_fail, Obs, Stats, Sub, Tier, Verdict};
use acb::peripheral::broker::questrade::sheet_to_txs;
use acb::peripheral::broker::BrokerTx;
use acb::portfolio::TxAction;
use json::JsonValue;
use office::{DataType, Range};
use proptest::prelude::*;
use rust_decimal::Decimal;
use std::collections::BTreeMap;
use std::str::FromStr;

pub const HEADERS: [&str; 14] = ["Transaction Date", "Settlement Date", "Action", "Symbol", "Description", "Quantity", "Price", "Gross Amount", "Commission", "Net Amount", "Currency", "Account #", "Activity Type", "Account Type"];

/// One activity row as the generator knows it (strings as the export would carry them).
#[derive(Clone, Debug, PartialEq)]
pub struct Activity { pub cells: BTreeMap<String, String> }

#[derive(Clone, Debug)]
pub struct Export {
    pub rows: Vec<Activity>,
    /// column layout: Some(name) for a named column, None for a blank-headed column
    pub layout: Vec<Option<String>>,
    /// cells of these columns are written as numbers instead of strings
    pub numeric_cols: Vec<String>,
    pub no_sort: bool,
}

impl Export {
    pub fn to_json(&self) -> JsonValue {
        json::object! { rows: self.rows.iter().map(|a| { let mut o = JsonValue::new_object(); for (k, v) in &a.cells { o[k.as_str()] = v.as_str().into(); } o }).collect::<Vec<_>>(), layout: self.layout.iter().map(|c| match c { Some(n) => n.as_str().into(), None => JsonValue::Null }).collect::<Vec<JsonValue>>(), numeric_cols: self.numeric_cols.clone(), no_sort: self.no_sort }
    }
    pub fn from_json(v: &JsonValue) -> Option<Export> {
        let rows = v["rows"].members().map(|r| Activity { cells: r.entries().map(|(k, x)| (k.to_string(), x.as_str().unwrap_or("").to_string())).collect() }).collect();
        Some(Export { rows, layout: v["layout"].members().map(|c| c.as_str().map(|s| s.to_string())).collect(), numeric_cols: v["numeric_cols"].members().filter_map(|x| x.as_str().map(|s| s.to_string())).collect(), no_sort: v["no_sort"].as_bool().unwrap_or(false) })
    }
    /// The spreadsheet in memory, in the given layout.
    pub fn range(&self, layout: &[Option<String>], numeric: &[String]) -> Range {
        let mut r = Range::new((0, 0), (self.rows.len() + 1, layout.len().max(1)));
        // a name starting with \u{1} stands for a header cell that is not text: a number (year) or a boolean
        for (j, c) in layout.iter().enumerate() { if let Some(n) = c { r.set_value((0, j as u32), match n.strip_prefix('\u{1}') { Some("TRUE") => DataType::Bool(true), Some(x) => DataType::Float(x.parse().unwrap_or(0.0)), None => DataType::String(n.clone()) }); } }
        for (i, a) in self.rows.iter().enumerate() {
            for (j, c) in layout.iter().enumerate() {
                let v = match c { Some(n) => a.cells.get(n).cloned().unwrap_or_else(|| if n.starts_with("Extra") || n.starts_with('\u{1}') { format!("x{i}") } else { String::new() }), None => format!("junk{i}") };
                let cell = if v.is_empty() { DataType::Empty } else if c.as_ref().map(|n| numeric.contains(n)).unwrap_or(false) { match v.parse::<f64>() { Ok(f) => DataType::Float(f), Err(_) => DataType::String(v) } } else { DataType::String(v) };
                r.set_value(((i + 1) as u32, j as u32), cell);
            }
        }
        r
    }
    pub fn canonical_layout() -> Vec<Option<String>> { HEADERS.iter().map(|h| Some(h.to_string())).collect() }
}

fn d2(v: i64, dp: u32) -> String { Decimal::new(v, dp).normalize().to_string() }

pub fn export_strategy() -> BoxedStrategy<Export> {
    let kind = prop_oneof![5 => Just("BUY"), 4 => Just("SELL"), 1 => Just("DIS"), 1 => Just("LIQ"), 2 => Just("DIV"), 3 => Just("FXT"), 2 => Just("IGN")];
    let row = (kind, 0u16..400, 0u8..3, 0usize..5, 1i64..50000, 1i64..500000, 0i64..2000, any::<bool>(), 0usize..6, any::<u16>());
    (proptest::collection::vec(row, 1..25), proptest::collection::vec(any::<u16>(), 24), any::<u8>(), any::<bool>()).prop_map(|(rs, seeds, lay, no_sort)| {
        let accounts = [("12345678", "Individual margin"), ("87654321", "Individual TFSA"), ("5550001", "Individual RRSP"), ("4440002", "Individual tfsa"), ("3330003", "Spousal Rrsp"), ("2220004", "Family RESP")];
        let symbols = ["FOO", "BAR.TO", "H038778", "XYZ", ".TSLA"];
        let mut rows: Vec<Activity> = vec![];
        for (kind, day, lag, sym, qty, px, comm, usd, acct, x) in rs {
            let d = crate::gen::ymd(2022, 1, 3) + time::Duration::days(day as i64);
            let td = format!("{} 12:00:00 AM", d);
            let sd = format!("{} 12:00:00 AM", d + time::Duration::days(if kind == "FXT" || kind == "DIV" { 0 } else { lag as i64 }));
            let (anum, atype) = accounts[acct];
            let cur = if usd { "USD" } else { "CAD" };
            let mk = |cells: Vec<(&str, String)>| -> Activity { let mut m: BTreeMap<String, String> = BTreeMap::new(); for h in HEADERS { m.insert(h.to_string(), String::new()); } for (k, v) in cells { m.insert(k.to_string(), v); } Activity { cells: m } };
            let base = |action: &str, symbol: &str| vec![("Transaction Date", td.clone()), ("Settlement Date", sd.clone()), ("Action", action.to_string()), ("Symbol", symbol.to_string()), ("Description", format!("{symbol} desc, with comma")), ("Currency", cur.to_string()), ("Account #", anum.to_string()), ("Account Type", atype.to_string()), ("Activity Type", "Trades".to_string())];
            let (q, mut p, mut c) = (d2(qty, [0, 0, 2, 4][x as usize % 4]), d2(px, [2, 2, 4, 3][(x >> 2) as usize % 4]), d2(comm, 2));
            // worthless close-outs / free distributions: price 0, possibly with a fee
            if (x >> 4) % 8 == 0 && kind != "DIS" { p = "0".to_string(); }
            let gross = Decimal::from_str(&q).unwrap() * Decimal::from_str(&p).unwrap();
            // a fee that eats the whole proceeds: net cash exactly zero
            if (x >> 7) % 16 == 0 && (kind == "SELL" || kind == "LIQ") && !gross.is_zero() { c = gross.normalize().to_string(); }
            match kind {
                "BUY" | "DIS" => { let mut v = base(kind, symbols[sym]); let price = if kind == "DIS" && (x >> 9) % 4 != 0 { "0".to_string() } else { p.clone() }; /* a distribution usually has price 0, not always */ let comm = if kind == "DIS" && (x >> 4) % 3 != 0 { "0".to_string() } else { format!("-{c}") }; v.extend(vec![("Quantity", q.clone()), ("Price", price), ("Gross Amount", format!("-{}", gross.normalize())), ("Commission", comm), ("Net Amount", format!("-{}", gross.normalize()))]); rows.push(mk(v)); }
                "SELL" | "LIQ" => { let mut v = base(kind, symbols[sym]); v.extend(vec![("Quantity", format!("-{q}")), ("Price", p.clone()), ("Gross Amount", gross.normalize().to_string()), ("Commission", format!("-{c}")), ("Net Amount", gross.normalize().to_string())]); rows.push(mk(v)); }
                // dividends, and now and then a reversal (negative amount)
                "DIV" => { let mut v = base("DIV", symbols[sym]); v.extend(vec![("Quantity", "0".to_string()), ("Price", "0".to_string()), ("Gross Amount", "0".to_string()), ("Commission", "0".to_string()), ("Net Amount", if (x >> 5) % 4 == 0 { format!("-{}", d2(px, 2)) } else { d2(px, 2) })]); v.retain(|k| k.0 != "Activity Type"); v.push(("Activity Type", "Dividends".to_string())); rows.push(mk(v)); }
                "FXT" => {
                    // a pair: CAD leg and USD leg, opposite signs, same day and account
                    let usd_amt = d2(qty + 1, 2);
                    let cad_amt = (Decimal::from_str(&usd_amt).unwrap() * Decimal::new(12000 + (x as i64 % 3000), 4)).round_dp(2).normalize().to_string();
                    let to_usd = x % 2 == 0;
                    let leg = |cur: &str, amt: String| { let mut v = vec![("Transaction Date", td.clone()), ("Settlement Date", td.clone()), ("Action", "FXT".to_string()), ("Symbol", String::new()), ("Description", "FX CONVERSION".to_string()), ("Quantity", "0".to_string()), ("Price", "0".to_string()), ("Gross Amount", "0".to_string()), ("Commission", "0".to_string()), ("Currency", cur.to_string()), ("Account #", anum.to_string()), ("Account Type", atype.to_string()), ("Activity Type", "FX conversion".to_string())]; v.push(("Net Amount", amt)); mk(v) };
                    let (cad, us) = if to_usd { (leg("CAD", format!("-{cad_amt}")), leg("USD", usd_amt.clone())) } else { (leg("CAD", cad_amt.clone()), leg("USD", format!("-{usd_amt}"))) };
                    // the two legs of a conversion are not always adjacent in the export: now and then an ignored activity (interest, a deposit) of the
                    // same day sits between them
                    let between: Option<Activity> = if (x / 6) % 4 == 0 { let code = ["INT", "DEP", "EFT"][(x / 24) as usize % 3]; let mut v = base(code, ""); v.extend(vec![("Quantity", "0".to_string()), ("Price", "0".to_string()), ("Gross Amount", "0".to_string()), ("Commission", "0".to_string()), ("Net Amount", d2(px, 2))]); Some(mk(v)) } else { None };
                    let (first, second) = if x % 3 == 0 { (us, cad) } else { (cad, us) };
                    rows.push(first); if let Some(b) = between { rows.push(b); } rows.push(second);
                }
                _ => { let code = ["BRW", "TFI", "TF6", "MGR", "DEP", "NAC", "CON", "INT", "EFT", "RDM", ""][x as usize % 11]; let mut v = base(code, if x % 2 == 0 { symbols[sym] } else { "" }); v.extend(vec![("Quantity", "0".to_string()), ("Price", "0".to_string()), ("Gross Amount", "0".to_string()), ("Commission", "0".to_string()), ("Net Amount", d2(px, 2))]); rows.push(mk(v)); }
            }
            // an order filled in two equal lots: the same activity twice, cell for cell
            if (kind == "BUY" || kind == "SELL") && (x >> 11) % 8 == 0 { if let Some(last) = rows.last().cloned() { rows.push(last); } }
        }
        // layout
        let mut layout: Vec<Option<String>> = Export::canonical_layout();
        if lay % 2 == 0 { let mut idx: Vec<usize> = (0..layout.len()).collect(); idx.sort_by_key(|&i| (seeds[i % seeds.len()], i)); layout = idx.into_iter().map(|i| layout[i].clone()).collect(); }
        for k in 0..((lay >> 1) % 3) as usize { let pos = seeds[14 + k] as usize % (layout.len() + 1); layout.insert(pos, Some(format!("Extra {k}"))); }
        if (lay >> 3) % 3 == 0 { let pos = seeds[20] as usize % (layout.len() + 1); layout.insert(pos, None); }
        if (lay >> 5) % 4 == 0 { let pos = seeds[21] as usize % (layout.len() + 1); layout.insert(pos, None); }
        // an unrelated column whose header cell is a number or a boolean
        if seeds[22] % 4 == 0 { let pos = seeds[23] as usize % (layout.len() + 1); layout.insert(pos, Some(if seeds[22] % 8 == 0 { "\u{1}TRUE".to_string() } else { "\u{1}2023".to_string() })); }
        let numeric_cols: Vec<String> = if (lay >> 7) % 2 == 0 { vec![] } else { vec!["Quantity".into(), "Price".into(), "Commission".into(), "Net Amount".into(), "Gross Amount".into()] };
        Export { rows, layout, numeric_cols, no_sort }
    }).boxed()
}

/// What the converter must emit, computed from the generator's own record.
#[derive(Clone, Debug, PartialEq, Eq, PartialOrd, Ord)]
pub struct Expected { pub security: String, pub td: String, pub sd: String, pub action: String, pub shares: Decimal, pub price: Decimal, pub commission: Decimal, pub currency: String, pub registered: bool, pub rate: Option<Decimal> }

pub fn num(a: &Activity, col: &str, numeric: &[String]) -> Decimal {
    let s = a.cells.get(col).cloned().unwrap_or_default();
    if numeric.iter().any(|c| c == col) { if let Ok(f) = s.parse::<f64>() { use rust_decimal::prelude::FromPrimitive; return Decimal::from_f64(f).unwrap(); } }
    Decimal::from_str(&s).unwrap_or(Decimal::ZERO)
}

pub fn expected(e: &Export) -> (Vec<Expected>, Decimal) {
    let mut out = vec![];
    let mut usd_cash = Decimal::ZERO;
    let mut pending_fxt: Option<&Activity> = None;
    for a in &e.rows {
        let g = |k: &str| a.cells.get(k).cloned().unwrap_or_default();
        let action = g("Action").to_uppercase();
        let registered = { let t = g("Account Type").to_lowercase(); t.contains("rrsp") || t.contains("tfsa") || t.contains("resp") };
        let (td, sd) = (g("Transaction Date")[..10].to_string(), g("Settlement Date")[..10].to_string());
        match action.as_str() {
            "BUY" | "SELL" | "DIS" | "LIQ" => {
                let buy = action == "BUY" || action == "DIS";
                let (q, p, c) = (num(a, "Quantity", &e.numeric_cols).abs(), num(a, "Price", &e.numeric_cols), num(a, "Commission", &e.numeric_cols).abs());
                let sym = if g("Symbol") == "H038778" { "DLR.TO".to_string() } else { g("Symbol") };
                out.push(Expected { security: sym, td: td.clone(), sd, action: if buy { "Buy".into() } else { "Sell".into() }, shares: q, price: p, commission: c, currency: g("Currency").to_uppercase(), registered, rate: None });
                if g("Currency").to_uppercase() == "USD" {
                    let amt = if buy { -(p * q) - c } else { p * q - c };
                    if !amt.is_zero() { usd_cash += amt; out.push(Expected { security: "USD.FX".into(), td: td.clone(), sd: td.clone(), action: if amt > Decimal::ZERO { "Buy".into() } else { "Sell".into() }, shares: amt.abs(), price: Decimal::ONE, commission: Decimal::ZERO, currency: "USD".into(), registered, rate: None }); }
                }
            }
            "DIV" => { if g("Currency").to_uppercase() == "USD" { let amt = num(a, "Net Amount", &e.numeric_cols); usd_cash += amt; out.push(Expected { security: "USD.FX".into(), td: td.clone(), sd: td.clone(), action: if amt > Decimal::ZERO { "Buy".into() } else { "Sell".into() }, shares: amt.abs(), price: Decimal::ONE, commission: Decimal::ZERO, currency: "USD".into(), registered, rate: None }); } }
            "FXT" => {
                match pending_fxt.take() {
                    None => pending_fxt = Some(a),
                    Some(first) => {
                        let (cad, usd) = if first.cells["Currency"] == "CAD" { (first, a) } else { (a, first) };
                        let (ca, ua) = (num(cad, "Net Amount", &e.numeric_cols), num(usd, "Net Amount", &e.numeric_cols));
                        usd_cash += ua;
                        out.push(Expected { security: "USD.FX".into(), td: td.clone(), sd: td.clone(), action: if ua > Decimal::ZERO { "Buy".into() } else { "Sell".into() }, shares: ua.abs(), price: Decimal::ONE, commission: Decimal::ZERO, currency: "USD".into(), registered, rate: Some((ca / ua).abs()) });
                    }
                }
            }
            _ => {}
        }
    }
    (out, usd_cash)
}

fn of_broker_tx(t: &BrokerTx) -> Expected {
    Expected { security: t.security.clone(), td: t.trade_date.to_string(), sd: t.settlement_date.to_string(), action: if t.action == TxAction::Buy { "Buy".into() } else { "Sell".into() }, shares: t.num_shares, price: t.amount_per_share, commission: t.commission, currency: t.currency.as_str().to_string(), registered: t.affiliate.registered(), rate: t.exchange_rate }
}

fn convert(e: &Export, layout: &[Option<String>]) -> Result<Result<Vec<BrokerTx>, (Option<Vec<BrokerTx>>, Vec<String>)>, crate::engine::PanicInfo> {
    crate::observe::reset_globals(crate::observe::far_today());
    let rg = e.range(layout, &e.numeric_cols);
    guard(|| match sheet_to_txs(&rg, None) { Ok(t) => Ok(t), Err(er) => Err((er.txs, er.errors.iter().map(|x| x.to_string()).collect())) })
}

fn check(e: &Export, obs: &mut Obs) -> Verdict {
    let show = || format!("layout: {:?}\nnumeric cells: {:?}\nrows:\n{}", e.layout.iter().map(|c| c.clone().unwrap_or("<blank>".into())).collect::<Vec<_>>(), e.numeric_cols, e.rows.iter().map(|a| HEADERS.iter().map(|h| a.cells.get(*h).cloned().unwrap_or_default()).collect::<Vec<_>>().join(" | ")).collect::<Vec<_>>().join("\n"));
    let blank = e.layout.iter().any(|c| c.as_ref().map(|n| n.starts_with('\u{1}')).unwrap_or(true));
    let txs = match convert(e, &e.layout) {
        Err(p) => return Verdict::Fail(format!("panic in the converter: {}\n{}", p.sig(), show())),
        Ok(Err((_, errs))) => {
            let detail = format!("a well-formed export is rejected: {:?}\n{}", errs, show());
            if blank { return known_or_fail("F-18a", detail); }
            return Verdict::Fail(detail);
        }
        Ok(Ok(t)) => t,
    };
    // (3) layout independence: same result as the canonical layout
    let canon = match convert(e, &Export::canonical_layout()) { Ok(Ok(t)) => t, Ok(Err((_, errs))) => return Verdict::Fail(format!("canonical layout rejected: {:?}\n{}", errs, show())), Err(p) => return Verdict::Fail(format!("panic: {}", p.sig())) };
    let norm = |v: &[BrokerTx]| -> Vec<Expected> { let mut x: Vec<Expected> = v.iter().map(of_broker_tx).collect(); x.sort(); x };
    let (got, got_canon) = (norm(&txs), norm(&canon));
    if got != got_canon {
        let detail = format!("output depends on the column layout\n{}", show());
        if blank { return known_or_fail("F-18a", detail); }
        return Verdict::Fail(detail);
    }
    // (1) + (2) against the generator's record
    let (mut want, usd_cash) = expected(e);
    want.sort();
    if got != want {
        let missing: Vec<&Expected> = want.iter().filter(|w| !got.contains(w)).collect();
        let extra: Vec<&Expected> = got.iter().filter(|g| !want.contains(g)).collect();
        return Verdict::Fail(format!("converter output differs from the activities: missing {:?}\nunexpected {:?}\n{}", missing.iter().take(3).collect::<Vec<_>>(), extra.iter().take(3).collect::<Vec<_>>(), show()));
    }
    let fx_total: Decimal = txs.iter().filter(|t| t.security == "USD.FX").map(|t| if t.action == TxAction::Buy { t.num_shares } else { -t.num_shares }).sum();
    if fx_total != usd_cash { return Verdict::Fail(format!("USD.FX rows total {fx_total} but the USD cash flow of trades, dividends and conversions is {usd_cash}\n{}", show())); }
    // (5) ordering: sorted output is ordered by settlement date; --no-sort keeps trades in row order
    let mut sorted = txs.clone(); sorted.sort();
    if sorted.windows(2).any(|w| w[0].settlement_date > w[1].settlement_date) { return Verdict::Fail(format!("sorted output not ordered by settlement date\n{}", show())); }
    // ... and, within one settlement date and time, every USD.FX purchase (dividends included) comes before every USD.FX sale, so that
    // acb, which processes the rows in this order, never sees a day's outflow before the inflow that funds it
    let fx_sorted: Vec<&acb::peripheral::broker::BrokerTx> = sorted.iter().filter(|t| t.security.ends_with(".FX")).collect();
    for (i, a) in fx_sorted.iter().enumerate() {
        if a.action != acb::portfolio::TxAction::Sell { continue; }
        if let Some(b) = fx_sorted[i + 1..].iter().find(|b| b.action == acb::portfolio::TxAction::Buy && b.settlement_date == a.settlement_date && b.settlement_date_and_time == a.settlement_date_and_time) {
            return Verdict::Fail(format!("sorted output puts the USD.FX sale of {} (row {}) before the USD.FX purchase of {} (row {}) settling at the same time {}\n{}", a.num_shares, a.row_num, b.num_shares, b.row_num, a.settlement_date, show()));
        }
    }
    if fx_sorted.iter().any(|a| a.action == acb::portfolio::TxAction::Sell && fx_sorted.iter().any(|b| b.action == acb::portfolio::TxAction::Buy && b.settlement_date == a.settlement_date && b.memo.to_lowercase().contains("div"))) { obs.class("usd-dividend-and-usd-outflow-settling-the-same-day"); }
    let trade_rows: Vec<u32> = txs.iter().filter(|t| !t.security.ends_with(".FX")).map(|t| t.row_num).collect();
    if trade_rows.windows(2).any(|w| w[0] > w[1]) { return Verdict::Fail(format!("unsorted output does not keep the row order of trades\n{}", show())); }
    // (4) every emitted row is accepted by acb (row level)
    let csvtxs: Vec<acb::portfolio::CsvTx> = sorted.iter().cloned().map(|t| t.into()).collect();
    let mut buf = acb::util::rw::StringBuffer::new();
    if let Err(er) = acb::portfolio::io::tx_csv::write_txs_to_csv(&csvtxs, &mut buf) { return Verdict::Fail(format!("cannot write converter output: {er}")); }
    let text = buf.export_string();
    let accepted = guard(|| -> Result<usize, String> {
        let mut rd = acb::util::rw::DescribedReader::from_string("converted.csv".into(), text.clone());
        let mut parsed = acb::portfolio::io::tx_csv::parse_tx_csv(&mut rd, 0, &Default::default(), &mut acb::util::rw::WriteHandle::empty_write_handle())?;
        let mut loader = crate::observe::synthetic_loader(2021..=2024);
        async_std::task::block_on(acb::portfolio::io::tx_loader::load_tx_rates(&mut parsed, &mut loader))?;
        let n = parsed.len();
        for c in parsed { acb::portfolio::Tx::try_from(c)?; }
        Ok(n)
    });
    match accepted { Err(p) => return Verdict::Fail(format!("panic feeding the converter output to acb: {}\n{text}", p.sig())), Ok(Err(er)) => return Verdict::Fail(format!("acb rejects a row the converter emitted: {er}\n{text}\n{}", show())), Ok(Ok(n)) => { if n != txs.len() { return Verdict::Fail("row count changed".into()); } } }
    // classification
    let has_usd_trade = want.iter().any(|w| w.currency == "USD" && w.security != "USD.FX");
    let has_fxt = want.iter().any(|w| w.rate.is_some());
    if has_usd_trade && has_fxt { obs.nt("usd-trade-and-fxt-pair"); }
    if blank { obs.nt("blank-header-cell"); }
    if e.rows.iter().any(|a| a.cells["Currency"] == "USD" && ["BUY", "SELL", "DIS", "LIQ"].contains(&a.cells["Action"].as_str()) && num(a, "Price", &e.numeric_cols).is_zero() && !num(a, "Commission", &e.numeric_cols).is_zero()) { obs.class("usd-zero-price-with-fee"); }
    if e.rows.iter().any(|a| a.cells["Action"] == "DIV" && a.cells["Currency"] == "USD" && a.cells["Net Amount"].starts_with('-')) { obs.class("usd-dividend-reversal"); }
    if e.layout != Export::canonical_layout() { obs.class("non-canonical-layout"); }
    if e.rows.windows(2).any(|w| w[0].cells == w[1].cells && ["BUY", "SELL"].contains(&w[0].cells["Action"].as_str())) { obs.class("order-filled-in-two-identical-lots"); }
    if e.rows.windows(3).any(|w| w[0].cells["Action"] == "FXT" && w[1].cells["Action"] != "FXT" && w[2].cells["Action"] == "FXT" && w[0].cells["Currency"] != w[2].cells["Currency"]) { obs.class("fxt-legs-not-adjacent"); }
    if !e.numeric_cols.is_empty() { obs.class("numeric-cells"); }
    if want.iter().any(|w| w.registered) { obs.class("registered-account"); }
    if e.rows.iter().any(|a| a.cells["Symbol"] == "H038778") { obs.class("alias-symbol"); }
    Verdict::Pass
}

/// End-to-end: real .xlsx written with rust_xlsxwriter -> run_with_args -> CSV text, with option semantics.
fn xlsx_end_to_end(tier: Tier, seed: u64, idx: u64, of: u64, stats: &mut Stats) {
    use proptest::strategy::ValueTree;
    use proptest::test_runner::{Config, RngSeed, TestRunner};
    let total = tier.pick(64u64, 3000);
    let mine = total / of + if idx < total % of { 1 } else { 0 };
    let dir = std::env::temp_dir().join(format!("c18-{}-{idx}", std::process::id()));
    let _ = std::fs::create_dir_all(&dir);
    let mut runner = TestRunner::new(Config { rng_seed: RngSeed::Fixed(seed), failure_persistence: None, ..Config::default() });
    let strat = export_strategy();
    let mut n = 0u64;
    for k in 0..mine {
        let Ok(tree) = strat.new_tree(&mut runner) else { continue };
        let e = tree.current();
        let path = dir.join(format!("export{k}.xlsx"));
        let mut wb = rust_xlsxwriter::Workbook::new();
        let ws = wb.add_worksheet();
        for (j, c) in e.layout.iter().enumerate() { if let Some(nm) = c { match nm.strip_prefix('\u{1}') { Some("TRUE") => { let _ = ws.write_boolean(0, j as u16, true); } Some(x) => { let _ = ws.write_number(0, j as u16, x.parse::<f64>().unwrap_or(0.0)); } None => { let _ = ws.write_string(0, j as u16, nm); } } } }
        for (i, a) in e.rows.iter().enumerate() { for (j, c) in e.layout.iter().enumerate() { if let Some(nm) = c { let v = a.cells.get(nm).cloned().unwrap_or_else(|| format!("x{i}")); if v.is_empty() { continue; } if e.numeric_cols.contains(nm) { if let Ok(f) = v.parse::<f64>() { let _ = ws.write_number((i + 1) as u32, j as u16, f); continue; } } let _ = ws.write_string((i + 1) as u32, j as u16, &v); } } }
        if wb.save(&path).is_err() { stats.infra_errors.push("cannot write xlsx".into()); break; }
        let run = |extra: &[&str]| -> Result<(bool, String, String), crate::engine::PanicInfo> {
            use clap::Parser;
            let mut argv: Vec<String> = vec!["tx-export-convert".into(), path.display().to_string()];
            argv.extend(extra.iter().map(|s| s.to_string()));
            let (oh, ob) = acb::util::rw::WriteHandle::string_buff_write_handle();
            let (eh, eb) = acb::util::rw::WriteHandle::string_buff_write_handle();
            let r = guard(|| { let args = acb::peripheral::tx_export_convert_impl::Args::try_parse_from(&argv).map_err(|_| ())?; acb::peripheral::tx_export_convert_impl::run_with_args(args, oh, eh) })?;
            let out = ob.borrow().as_str().to_string(); let err = eb.borrow().as_str().to_string();
            Ok((r.is_ok(), out, err))
        };
        let fail = |stats: &mut Stats, msg: String| stats.failures.push(crate::engine::Failure { prop: "C18".into(), sub: "sheet".into(), message: msg, case: e.to_json() });
        let count_rows = |csv: &str| -> Vec<Vec<String>> { let mut rd = csv::ReaderBuilder::new().has_headers(true).flexible(true).from_reader(csv.as_bytes()); rd.records().flatten().map(|r| r.iter().map(|s| s.to_string()).collect()).collect() };
        let (want, _) = expected(&e);
        match run(&["--account="]) {
            Err(p) => fail(stats, format!("panic in tx-export-convert: {}", p.sig())),
            Ok((ok, out, err)) => {
                if !ok { fail(stats, format!("tx-export-convert fails on a well-formed export: {err}")); }
                else if count_rows(&out).len() != want.len() { fail(stats, format!("xlsx path: {} rows out, {} expected\n{out}", count_rows(&out).len(), want.len())); }
                else {
                    // options: filters give sub-multisets; --no-fx drops exactly the FX rows
                    if let Ok((true, o2, _)) = run(&["--account=", "--no-fx"]) { let want_nofx = want.iter().filter(|w| !w.security.ends_with(".FX")).count(); if count_rows(&o2).len() != want_nofx { fail(stats, format!("--no-fx: {} rows, expected {want_nofx}", count_rows(&o2).len())); } }
                    if let Ok((true, o3, _)) = run(&["--account=", "--security", "^FOO$"]) { let w = want.iter().filter(|w| w.security == "FOO").count(); if count_rows(&o3).len() != w { fail(stats, format!("--security ^FOO$: {} rows, expected {w}", count_rows(&o3).len())); } }
                    // option combinations: --security patterns that also match the currency-holding symbol, alone and together with --no-fx
                    for pat in [".", "U", "FX$", "^(FOO|USD\\.FX)$"] {
                        let re = regex::Regex::new(pat).unwrap();
                        let w_sec = want.iter().filter(|w| re.is_match(&w.security)).count();
                        let w_both = want.iter().filter(|w| re.is_match(&w.security) && !w.security.ends_with(".FX")).count();
                        if let Ok((true, o, _)) = run(&["--account=", "--security", pat]) { if count_rows(&o).len() != w_sec { fail(stats, format!("--security {pat}: {} rows, expected {w_sec}", count_rows(&o).len())); } }
                        for args in [["--account=", "--security", pat, "--no-fx"], ["--account=", "--no-fx", "--security", pat]] {
                            if let Ok((true, o, _)) = run(&args) { if count_rows(&o).len() != w_both { fail(stats, format!("{}: {} rows, expected {w_both} (the rows of matching securities that are not currency holdings)", args[1..].join(" "), count_rows(&o).len())); } }
                        }
                    }
                    // --no-sort keeps the trades in sheet order, also when --account selects several accounts
                    if let Ok((true, o, _)) = run(&["--account", ".", "--no-sort"]) {
                        let mut rd = csv::ReaderBuilder::new().has_headers(true).flexible(true).from_reader(o.as_bytes());
                        let hdr: Vec<String> = rd.headers().map(|h| h.iter().map(|s| s.to_string()).collect()).unwrap_or_default();
                        if let (Some(cs), Some(ct), Some(ca), Some(cq)) = (hdr.iter().position(|h| h == "security"), hdr.iter().position(|h| h == "trade date"), hdr.iter().position(|h| h == "action"), hdr.iter().position(|h| h == "shares")) {
                            let got: Vec<(String, String, String, Decimal)> = rd.records().flatten().filter(|r| !r[cs].ends_with(".FX")).map(|r| (r[cs].to_string(), r[ct].to_string(), r[ca].to_string(), Decimal::from_str(&r[cq]).unwrap_or_default().normalize())).collect();
                            let wanted: Vec<(String, String, String, Decimal)> = want.iter().filter(|w| !w.security.ends_with(".FX")).map(|w| (w.security.clone(), w.td.clone(), w.action.clone(), w.shares.normalize())).collect();
                            if got != wanted { let at = got.iter().zip(wanted.iter()).position(|(a, b)| a != b).unwrap_or(got.len().min(wanted.len())); fail(stats, format!("--account . --no-sort: the trades are not in sheet order (first difference at trade {at}: {:?} vs sheet {:?})", got.get(at), wanted.get(at))); }
                        }
                    }
                    // (--account patterns are checked below against the joined account string)
                    // --account is a regular expression over '<account type> <account number>' (one string): the whole string, either part
                    let mut accounts: Vec<(String, String)> = e.rows.iter().map(|a| (a.cells["Account Type"].clone(), a.cells["Account #"].clone())).collect(); accounts.sort(); accounts.dedup();
                    for (ty, num) in accounts.iter().take(3) {
                        let only = |pred: &dyn Fn(&str) -> bool| -> usize { let sub = Export { rows: e.rows.iter().filter(|a| pred(&format!("{} {}", a.cells["Account Type"], a.cells["Account #"]))).cloned().collect(), layout: e.layout.clone(), numeric_cols: e.numeric_cols.clone(), no_sort: e.no_sort }; expected(&sub).0.len() };
                        let joined = format!("{ty} {num}");
                        for pat in [format!("^{}$", regex::escape(&joined)), regex::escape(&joined), format!("^{}", regex::escape(ty)), format!("{}$", regex::escape(num)), format!("{} {}", &ty[ty.len().saturating_sub(3)..], &num[..2.min(num.len())])] {
                            let re = regex::Regex::new(&pat).unwrap();
                            let w = only(&|s: &str| re.is_match(s));
                            match run(&["--account", &pat]) { Ok((true, o, _)) => { let got = count_rows(&o).len(); if got != w { fail(stats, format!("--account {pat:?}: {got} rows, expected {w} (the pattern is matched against '<account type> <account number>')")); } } Ok((false, _, er)) => { if w > 0 && !er.contains("account") { fail(stats, format!("--account {pat:?} fails: {er}")); } } Err(p) => fail(stats, format!("panic: {}", p.sig())) }
                        }
                    }
                    if let Ok((true, o5, _)) = run(&["--account=", "--usd-exchange-rate", "1.25"]) { let rows = count_rows(&o5); let hdr: Vec<String> = csv::ReaderBuilder::new().from_reader(o5.as_bytes()).headers().map(|h| h.iter().map(|s| s.to_string()).collect()).unwrap_or_default(); if let (Some(ci), Some(ri)) = (hdr.iter().position(|h| h == "currency"), hdr.iter().position(|h| h == "exchange rate")) { if rows.iter().any(|r| r[ci] == "USD" && r[ri] != "1.25") { fail(stats, "--usd-exchange-rate not applied to every USD row".into()); } } }
                }
            }
        }
        let _ = std::fs::remove_file(&path);
        n += 1;
        crate::engine::heartbeat();
        if !stats.failures.is_empty() { break; }
    }
    let _ = std::fs::remove_dir_all(&dir);
    *stats.extra.entry("xlsx_end_to_end_files".into()).or_insert(0.into()) = (stats.extra.get("xlsx_end_to_end_files").and_then(|v| v.as_u64()).unwrap_or(0) + n).into();
}

pub fn def() -> PropDef {
    let mut d = PropDef::new("C18", "well-formed Questrade activity exports: 1-25 activities over BUY, SELL, DIS, LIQ, DIV, FXT pairs (either leg first, now and then with an ignored activity between the legs) and the documented ignored codes; margin / TFSA / RRSP / RESP accounts (type spelled in upper, lower and mixed case); CAD and USD; signed quantities and commissions as Questrade writes them; the H038778 alias; orders filled in two identical lots (the same activity twice); x column layout (permutation, extra named columns, one or two blank-headed columns, a column headed by a number or a boolean cell, numeric vs string cells). In memory through office::Range -> sheet_to_txs, and end to end for a sample (real .xlsx via rust_xlsxwriter -> run_with_args -> CSV, with --no-fx / --security / --account / --usd-exchange-rate, and --security patterns matching USD.FX combined with --no-fx in either order). Oracles: multiset of emitted rows = the generator's own record of trade activities and FX rows (dates, |qty|, price, |commission|, currency, registered affiliate, implied FXT rate); signed USD.FX total = USD cash flow (exact); output independent of the layout; sorted output ordered by settlement date and, within one settlement time, USD.FX purchases (dividends included) before USD.FX sales; every row accepted by acb's parser, rate loader and Tx conversion. Non-trivial = export with a USD trade and an FXT pair, or a layout with a blank or non-text header cell. Distinct = distinct case content.");
    d.assumptions = vec!["ledger-level acceptance (e.g. USD.FX over-sale) is not the converter's contract; rows are checked for row-level acceptance", "numeric cells go through the same f64 -> Decimal conversion on both sides"];
    d.subs.push(Box::new(Sub::<Export> { name: "sheet", cases_quick: 20_000, cases_thorough: 800_000, strategy: Box::new(|_| export_strategy()), to_json: Export::to_json, from_json: Export::from_json, check }));
    d.extra = Some(xlsx_end_to_end);
    d
}
