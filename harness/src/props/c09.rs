//! C09 — same input, same output, byte for byte (repetition under varying hash seeds).
use super::common::*;
use super::PropDef;
use crate::engine::{known_or_fail, Obs, Stats, Sub, Tier, Verdict};
use crate::gen::{GenParams, HRow};
use crate::model::{affiliate_id, Act};
use crate::observe::{run_csv_writer, run_summary, run_text, RunErr, SummaryErr};
use proptest::prelude::*;
use std::collections::BTreeSet;

fn strategy(tier: Tier) -> BoxedStrategy<LedgerCase> {
    let mut p = GenParams::ledger();
    p.max_rows = tier.pick(18, 36);
    p.usd_norate = false; // the binary-level sample must not need the network
    p.secs = vec!["FOO", "BAR", "foo", "XYZ.TO", "Bar"]; // distinct securities that are equal when case is ignored
    // a third of the inputs use the currency-holding symbols the broker converters emit (USD.FX, ...), several of them at once
    let mut pfx = p.clone();
    pfx.secs = vec!["USD.FX", "EUR.FX", "FOO", "GBP.FX", "usd.fx"];
    (prop_oneof![2 => ledger_strategy(p, 3), 1 => ledger_strategy(pfx, 3)], crate::gen::intent_strategy(), crate::gen::intent_strategy(), any::<u8>()).prop_map(|(base, i1, i2, mode)| {
        let mut c = base;
        // a quarter of the inputs get a bookkeeping failure planted into two securities (several error messages to order)
        if mode % 4 == 0 {
            for (k, it) in [i1, i2].iter().enumerate() {
                let secs = c.secs();
                if secs.len() < 2 { break; }
                let mut it = it.clone();
                it.sec = ((((k % secs.len()) as u32) << 16) / secs.len() as u32 + 1).min(65535) as u16;
                if let Some(rc) = super::c04::plant(&c, &it) { c = rc.ledger; }
            }
        }
        // another quarter repeats a recognised column (two memo / two commission columns with different cells)
        // some inputs with an opening position get a second one for the same symbol in another letter case (a different position)
        if mode % 3 == 2 { if let Some((sym, _, _)) = c.opening.first().cloned() {
            let other: String = sym.chars().map(|ch| if ch.is_ascii_uppercase() { ch.to_ascii_lowercase() } else { ch.to_ascii_uppercase() }).collect();
            if other != sym && !c.opening.iter().any(|o| o.0 == other) { c.opening.push((other, "7".into(), "77.7".into())); }
        } }
        if mode % 4 == 1 { c.tags = vec![if mode % 8 == 1 { "dup:memo".to_string() } else { "dup:commission".to_string() }]; } else { c.tags = vec![]; }
        c
    }).boxed()
}

/// The input file; with a `dup:` tag a recognised column appears twice with different cells.
fn files_of(case: &LedgerCase) -> Vec<(String, String)> {
    let Some(tag) = case.tags.iter().find(|t| t.starts_with("dup:")) else { return case.files(); };
    let col = &tag[4..];
    let text = crate::gen::to_csv(&case.rows);
    let mut out = String::new();
    for (i, line) in text.lines().enumerate() {
        if i == 0 { out += &format!("{line},{col}\n"); continue; }
        let r = &case.rows[i - 1];
        let cell = if col == "memo" { if i % 2 == 0 { format!("second memo {i}") } else { String::new() } } else if matches!(r.act, Act::Buy | Act::Sell) && i % 2 == 0 { "1.11".to_string() } else { String::new() };
        out += &format!("{line},{cell}\n");
    }
    vec![("f0.csv".to_string(), out)]
}

fn first_diff(a: &str, b: &str) -> String {
    let (la, lb): (Vec<&str>, Vec<&str>) = (a.lines().collect(), b.lines().collect());
    for i in 0..la.len().max(lb.len()) {
        let (x, y) = (la.get(i).copied().unwrap_or("<missing>"), lb.get(i).copied().unwrap_or("<missing>"));
        if x != y { return format!("line {}:\n   run 1: {}\n   run n: {}", i + 1, x.chars().take(400).collect::<String>(), y.chars().take(400).collect::<String>()); }
    }
    "(same lines, different line ends)".into()
}

/// Which recorded root cause explains a difference between two runs (by what differs).
fn classify_diff(what: &str, a: &str, b: &str) -> Option<&'static str> {
    let d = first_diff(a, b);
    let lines_a: BTreeSet<&str> = a.lines().collect();
    let lines_b: BTreeSet<&str> = b.lines().collect();
    if lines_a == lines_b && d.contains("ignored transaction") { return Some("F-09b-notes"); }
    if what.contains("text") || what.contains("csv") {
        if d.contains("ignored transaction") { return Some("F-09b-notes"); }
    }
    None
}

fn nontrivial(case: &LedgerCase, obs: &mut Obs) {
    let secs = case.secs();
    if secs.len() >= 3 { obs.nt(">=3-securities"); }
    for s in &secs {
        let rows: Vec<&HRow> = case.rows.iter().filter(|r| &r.sec == s).collect();
        let mut afs: Vec<String> = rows.iter().filter(|r| !r.is_global_split()).map(|r| affiliate_id(&r.af).0).collect(); afs.sort(); afs.dedup();
        if afs.len() >= 2 && rows.iter().any(|r| r.is_global_split()) { obs.nt(">=2-affiliates-under-a-split-for-all"); }
    }
    let ignored_secs: BTreeSet<&String> = case.rows.iter().filter(|r| !r.is_global_split() && affiliate_id(&r.af).0 != "default").map(|r| &r.sec).collect();
    if ignored_secs.len() >= 2 { obs.nt("ignored-rows-in->=2-securities"); }
    if case.rows.iter().any(|r| r.act == Act::Split) { obs.class("has-split(tie-candidate)"); }
    for t in &case.tags { if t.starts_with("dup:") { obs.class(format!("repeated-column:{}", &t[4..])); } }
}

fn check(case: &LedgerCase, obs: &mut Obs) -> Verdict {
    let files = files_of(case);
    let csv = &files[0].1;
    let opts = case.run_opts();
    let k = if std::env::var("VERIF_TIER").as_deref() == Ok("thorough") { 16 } else { 6 };
    // a summary date in the middle of the history
    let mut dates: Vec<time::Date> = case.rows.iter().map(|r| r.sd).collect(); dates.sort();
    let cut = dates[dates.len() / 2];
    let today = *dates.last().unwrap() + time::Duration::days(100);
    let mut first: Option<Vec<(String, String)>> = None;
    for rep in 0..k {
        let mut outs: Vec<(String, String)> = vec![];
        match run_text(&files, &opts, rep % 2 == 0 && false, true) { Ok(t) => outs.push(("text output (--total-costs)".into(), format!("{}\n--stderr--\n{}", t.out, t.err))), Err(RunErr::Panic(p)) => return classify_panic(&p, csv), Err(RunErr::Run(e)) => outs.push(("text output".into(), format!("RUN ERROR {e}"))), Err(RunErr::BadInit(e)) => return Verdict::Fail(e) }
        match run_text(&files, &opts, true, true) { Ok(t) => outs.push(("text output (--print-full-values --total-costs)".into(), format!("{}\n--stderr--\n{}", t.out, t.err))), Err(RunErr::Panic(p)) => return classify_panic(&p, csv), Err(_) => {} }
        match run_csv_writer(&files, &opts, false, true) { Ok(t) => outs.push(("csv output files".into(), t.out)), Err(RunErr::Panic(p)) => return classify_panic(&p, csv), Err(_) => {} }
        for annual in [false, true] {
            match run_summary(&files, &opts, cut, annual, today) {
                Ok(s) => outs.push((format!("summary csv (annual={annual})"), format!("{}\n--warnings--\n{}", s.csv, s.warnings.join("\n")))),
                Err(SummaryErr::Panic(p)) => { let v = classify_panic(&p, csv); if let Verdict::Known(..) = v { return v; } outs.push((format!("summary csv (annual={annual})"), format!("PANIC {}", p.sig()))); }
                Err(SummaryErr::General(e)) => outs.push((format!("summary csv (annual={annual})"), format!("ERROR {e}"))),
                Err(SummaryErr::Sec(m)) => {
                    outs.push((format!("summary csv (annual={annual})"), format!("SEC ERRORS {:?}", m)));
                    // what the console front end prints for these errors, in its own order
                    match crate::observe::run_summary_console_errors(&files, &opts, cut, annual, today) { Ok(e) => outs.push((format!("summary mode error stream (annual={annual})"), e)), Err(e) => return Verdict::Fail(format!("summary console front end: {e}\n{csv}")) }
                    if m.len() >= 2 { obs.nt("summary-with->=2-failing-securities"); }
                }
                Err(SummaryErr::BadInit(e)) => return Verdict::Fail(e),
            }
        }
        match &first {
            None => first = Some(outs),
            Some(f) => {
                for ((name, a), (_, b)) in f.iter().zip(outs.iter()) {
                    if a != b {
                        let detail = format!("{name} differs between run 1 and run {} of the same input: {}\nopening={:?}\n{csv}", rep + 1, first_diff(a, b), case.opening);
                        if let Some(id) = classify_diff(name, a, b) { return known_or_fail(id, detail); }
                        return Verdict::Fail(detail);
                    }
                }
            }
        }
    }
    nontrivial(case, obs);
    Verdict::Pass
}

/// Binary level: the real `acb` main in separate processes (fresh OS hash seeds), stdout and output directory.
fn binary_repeat(tier: Tier, seed: u64, idx: u64, of: u64, stats: &mut Stats) {
    use proptest::strategy::ValueTree;
    use proptest::test_runner::{Config, RngSeed, TestRunner};
    let total = tier.pick(32u64, 800);
    let mine = total / of + if idx < total % of { 1 } else { 0 };
    let exe = std::env::current_exe().unwrap().parent().unwrap().join("acb_cli");
    let tmp = std::env::temp_dir().join(format!("c09-bin-{}-{idx}", std::process::id()));
    let _ = std::fs::create_dir_all(&tmp);
    let mut runner = TestRunner::new(Config { rng_seed: RngSeed::Fixed(seed), failure_persistence: None, ..Config::default() });
    let strat = strategy(tier);
    let mut done = 0u64;
    for _ in 0..mine {
        let Ok(tree) = strat.new_tree(&mut runner) else { continue };
        let case = tree.current();
        let f = tmp.join("in.csv");
        if std::fs::write(&f, crate::gen::to_csv(&case.rows)).is_err() { continue; }
        let mut firsts: Option<(Vec<u8>, Vec<(String, Vec<u8>)>)> = None;
        for rep in 0..4 {
            let outdir = tmp.join(format!("out{rep}"));
            let _ = std::fs::remove_dir_all(&outdir);
            let mut cmd = std::process::Command::new(&exe);
            cmd.arg(&f).arg("--total-costs").env("HOME", &tmp);
            for b in crate::gen::symbol_base_strings(&case.opening) { cmd.arg("-b").arg(b); }
            let mut cmd2 = std::process::Command::new(&exe);
            cmd2.arg(&f).arg("--total-costs").arg("-d").arg(&outdir).env("HOME", &tmp);
            for b in crate::gen::symbol_base_strings(&case.opening) { cmd2.arg("-b").arg(b); }
            let mut dates: Vec<time::Date> = case.rows.iter().map(|r| r.sd).collect(); dates.sort();
            let mut cmd3 = std::process::Command::new(&exe);
            cmd3.arg(&f).arg("--summarize-before").arg(dates[dates.len() / 2].to_string()).env("HOME", &tmp);
            cmd3.arg("--summarize-annual-gains");
            for b in crate::gen::symbol_base_strings(&case.opening) { cmd3.arg("-b").arg(b); }
            let (Ok(mut o1), Ok(_o2), Ok(o3)) = (cmd.output(), cmd2.output(), cmd3.output()) else { stats.infra_errors.push("cannot run acb_cli".into()); return; };
            o1.stdout.extend_from_slice(b"\n=== summary (annual) stdout+stderr ===\n"); o1.stdout.extend_from_slice(&o3.stdout); o1.stdout.extend_from_slice(&o3.stderr);
            let mut filesv: Vec<(String, Vec<u8>)> = std::fs::read_dir(&outdir).map(|d| d.filter_map(|e| e.ok()).map(|e| (e.file_name().to_string_lossy().to_string(), std::fs::read(e.path()).unwrap_or_default())).collect()).unwrap_or_default();
            filesv.sort();
            match &firsts {
                None => firsts = Some((o1.stdout.clone(), filesv)),
                Some((so, fv)) => {
                    let mut diff = None;
                    if *so != o1.stdout { diff = Some(("stdout".to_string(), String::from_utf8_lossy(so).to_string(), String::from_utf8_lossy(&o1.stdout).to_string())); }
                    else { for ((n1, b1), (n2, b2)) in fv.iter().zip(filesv.iter()) { if n1 != n2 || b1 != b2 { diff = Some((format!("output file {n1}"), String::from_utf8_lossy(b1).to_string(), String::from_utf8_lossy(b2).to_string())); break; } } if fv.len() != filesv.len() { diff = Some(("set of output files".into(), format!("{:?}", fv.iter().map(|x| &x.0).collect::<Vec<_>>()), format!("{:?}", filesv.iter().map(|x| &x.0).collect::<Vec<_>>()))); } }
                    if let Some((what, a, b)) = diff {
                        let detail = format!("acb binary: {what} differs between two runs of the same command: {}\n{}", first_diff(&a, &b), crate::gen::to_csv(&case.rows));
                        let known = classify_diff(&what, &a, &b).filter(|id| crate::engine::is_listed(id));
                        match known {
                            Some(id) => { *stats.excluded_known.entry(id.to_string()).or_insert(0) += 1; stats.known_detail.entry(id.to_string()).or_insert(detail); }
                            None => stats.failures.push(crate::engine::Failure { prop: "C09".into(), sub: "repeat".into(), message: detail, case: case.to_json() }),
                        }
                        break;
                    }
                }
            }
        }
        done += 1;
        crate::engine::heartbeat();
        if !stats.failures.is_empty() { break; }
    }
    let _ = std::fs::remove_dir_all(&tmp);
    *stats.extra.entry("binary_inputs_x4_runs".into()).or_insert(0.into()) = (stats.extra.get("binary_inputs_x4_runs").and_then(|v| v.as_u64()).unwrap_or(0) + done).into();
}

pub fn def() -> PropDef {
    let mut d = PropDef::new("C09", "generated inputs rich in hash-ordered shapes (>= 3 affiliates with splits for all affiliates, several securities with registered / non-default rows, splits that tie yearly maxima, many securities) are run k times in one process (k = 6 quick, 16 thorough; every HashMap gets a fresh hash seed) and the bytes of: text output with --total-costs (default and full precision), the CSV writer's files, the summary CSV with its warnings (simple and annual), and the error stream of the summary front end when securities fail (a quarter of the inputs get failures planted into two securities; another quarter repeats a recognised column with different cells) must be identical; a sample of inputs is additionally run 4 times through the real acb main in separate processes comparing stdout and every file of --csv-output-dir. Non-trivial = input with >= 3 securities, or >= 2 affiliates under a split for all affiliates, or ignored (non-default affiliate) rows in >= 2 securities. Distinct = distinct case content.");
    d.assumptions = vec!["hash seeds are sampled by the process, not by VERIF_SEED: a correct tree can never fail, a broken one fails with high probability per non-trivial case", "replay repeats the case 64 times"];
    d.replay_repeats = 12;
    d.subs.push(Box::new(Sub::<LedgerCase> { name: "repeat", cases_quick: 4_000, cases_thorough: 100_000, strategy: Box::new(strategy), to_json: LedgerCase::to_json, from_json: LedgerCase::from_json, check }));
    d.extra = Some(binary_repeat);
    d
}
