//! C08 — securities are computed independently; one security's error stays local.
use super::common::*;
use super::PropDef;
use crate::bigrat::{tol9, Rat};
use crate::engine::{known_or_fail, Obs, Sub, Tier, Verdict};
use crate::gen::{intent_strategy, GenParams, HRow};
use crate::model::Act;
use crate::observe::{run_render, RunErr, RunOpts};
use crate::snapshot::{aggregate_gains, Snap};
use json::JsonValue;
use proptest::prelude::*;
use std::collections::{BTreeMap, BTreeSet};

#[derive(Clone, Debug)]
pub struct SplitCase { pub all: LedgerCase, pub b_secs: Vec<String>, pub planted: String, /// file number of each row (same length as rows; empty = one file)
    pub layout: Vec<u8> }

impl SplitCase {
    fn to_json(&self) -> JsonValue { let mut j = self.all.to_json(); j["b_secs"] = JsonValue::Array(self.b_secs.iter().map(|s| s.as_str().into()).collect()); j["planted"] = self.planted.as_str().into(); j["layout"] = JsonValue::Array(self.layout.iter().map(|x| (*x as u32).into()).collect()); j }
    fn from_json(v: &JsonValue) -> Option<SplitCase> { Some(SplitCase { all: LedgerCase::from_json(v)?, b_secs: v["b_secs"].members().filter_map(|x| x.as_str().map(|s| s.to_string())).collect(), planted: v["planted"].as_str().unwrap_or("").to_string(), layout: v["layout"].members().filter_map(|x| x.as_u8()).collect() }) }
}

fn strategy(tier: Tier) -> BoxedStrategy<SplitCase> {
    let mut p = GenParams::ledger();
    p.max_rows = tier.pick(16, 30);
    // a quarter of the inputs hold share classes of one issuer: symbols equal up to their last dot (BRK.A / BRK.B)
    let mut classes = p.clone();
    classes.secs = vec!["BRK.A", "FOO", "BRK.B"];
    (prop_oneof![3 => ledger_strategy(p, 3), 1 => ledger_strategy(classes, 3)], intent_strategy(), any::<u16>(), proptest::collection::vec(0u8..3, 48)).prop_map(|(base, it, mode, lay)| {
        let secs = base.secs();
        // B = last security (or last two); A = the rest
        let nb = if secs.len() >= 3 && mode % 2 == 0 { 2 } else { 1 };
        let b_secs: Vec<String> = secs.iter().rev().take(nb.min(secs.len().saturating_sub(1))).cloned().collect();
        let mut all = base.clone();
        let mut planted = String::new();
        match mode % 5 {
            0 | 1 => {
                // plant a bookkeeping failure into one of B's securities
                if let Some(bsec) = b_secs.first() {
                    let mut it2 = it.clone();
                    // steer `plant` to the chosen security
                    let ix = secs.iter().position(|s| s == bsec).unwrap_or(0);
                    it2.sec = (((ix as u32) << 16) / secs.len().max(1) as u32 + 1).min(65535) as u16;
                    if let Some(rc) = super::c04::plant(&base, &it2) { if b_secs.contains(&rc.sec) { planted = format!("{}:{}", rc.sec, rc.cause); all = rc.ledger; } }
                }
            }
            2 => {
                // B refused by the split-proximity rule: a split for everyone next to a per-affiliate split
                if let Some(bsec) = b_secs.first() {
                    if let Some(r) = base.rows.iter().find(|r| &r.sec == bsec).cloned() {
                        let mut g = HRow::new(bsec, r.sd, r.sd, Act::Split); g.split = "2-for-1".into();
                        let mut pa = g.clone(); pa.af = "Default".into();
                        all.rows.push(g); all.rows.push(pa);
                        planted = format!("{bsec}:split-proximity");
                    }
                }
            }
            _ => {}
        }
        // a third of the cases spread the rows over two or three files (same spread for A, B and A+B)
        let layout: Vec<u8> = if (mode / 5) % 3 == 0 { (0..all.rows.len()).map(|i| lay[i % lay.len()] % (2 + (mode / 15 % 2) as u8)).collect() } else { vec![] };
        SplitCase { all, b_secs, planted, layout }
    }).boxed()
}

fn sub_case(c: &LedgerCase, layout: &[u8], secs: &BTreeSet<String>) -> (LedgerCase, Vec<u8>) {
    let keep: Vec<usize> = (0..c.rows.len()).filter(|i| secs.contains(&c.rows[*i].sec)).collect();
    (LedgerCase { rows: keep.iter().map(|i| c.rows[*i].clone()).collect(), opening: c.opening.iter().filter(|o| secs.contains(&o.0)).cloned().collect(), tags: vec![] },
     if layout.len() == c.rows.len() { keep.iter().map(|i| layout[*i]).collect() } else { vec![] })
}
/// the rows as input files: one file, or one per file number of the layout (files in number order, rows in row order)
fn files_of(c: &LedgerCase, layout: &[u8]) -> Vec<(String, String)> {
    if layout.len() != c.rows.len() || layout.is_empty() { return c.files(); }
    let mut out = vec![];
    for f in 0..=*layout.iter().max().unwrap() {
        let rows: Vec<HRow> = c.rows.iter().zip(layout).filter(|(_, l)| **l == f).map(|(r, _)| r.clone()).collect();
        if !rows.is_empty() { out.push((format!("f{f}.csv"), crate::gen::to_csv(&rows))); }
    }
    out
}

enum Run { Ok(Snap), RunErr(String) }
fn run((c, layout): &(LedgerCase, Vec<u8>), opts: &RunOpts) -> Result<Run, Verdict> {
    if c.rows.is_empty() { return Ok(Run::Ok(Snap { secs: BTreeMap::new(), aggregate: crate::snapshot::TableSnap { header: vec![], rows: vec![], footer: vec![], notes: vec![], errors: vec![] }, costs: None })); }
    let files = files_of(c, layout);
    let mut o = opts.clone();
    o.symbol_base = crate::gen::symbol_base_strings(&c.opening);
    match run_render(&files, &o, true, false) {
        Ok(r) => Ok(Run::Ok(Snap::of(&r.res).normalized())),
        Err(RunErr::Panic(p)) => Err(classify_panic(&p, &files[0].1)),
        Err(RunErr::Run(e)) => Ok(Run::RunErr(e)),
        Err(RunErr::BadInit(e)) => Err(Verdict::Fail(e)),
    }
}

fn check(c: &SplitCase, obs: &mut Obs) -> Verdict {
    let all_secs: BTreeSet<String> = c.all.secs().into_iter().collect();
    let b: BTreeSet<String> = c.b_secs.iter().cloned().filter(|s| all_secs.contains(s)).collect();
    let a: BTreeSet<String> = all_secs.difference(&b).cloned().collect();
    if a.is_empty() || b.is_empty() { return Verdict::Skip("single-security".into()); }
    let mut opts = c.all.run_opts();
    // a third of the multi-file cases (and so a ninth of all) start from a rate cache left by an earlier run in the middle of the history:
    // which look-ups are served from it must not depend on which other securities are in the run
    if c.layout.len() % 3 == 1 || (c.layout.is_empty() && c.all.rows.len() % 4 == 1) {
        let mut ds: Vec<time::Date> = c.all.rows.iter().filter(|r| r.cur.trim().eq_ignore_ascii_case("USD") || r.ccur.trim().eq_ignore_ascii_case("USD")).map(|r| r.td).collect();
        ds.sort();
        if ds.len() >= 2 { opts.stale_cache_until = Some(ds[ds.len() / 2]); }
    }
    // and some run with --force-download over a cache whose every rate is wrong: whatever else is in the run, nothing of that cache may be used
    if opts.stale_cache_until.is_none() && c.all.rows.len() % 5 == 2 && opts.usd_years.map(|(a, b)| b > a).unwrap_or(false) { opts.forced_over_wrong_cache = true; }
    let csv = files_of(&c.all, &c.layout).iter().map(|(n, t)| format!("--- {n}\n{t}")).collect::<Vec<_>>().join("");
    let (ra, rb, rab) = match (run(&sub_case(&c.all, &c.layout, &a), &opts), run(&sub_case(&c.all, &c.layout, &b), &opts), run(&(c.all.clone(), c.layout.clone()), &opts)) { (Ok(x), Ok(y), Ok(z)) => (x, y, z), (Err(v), _, _) | (_, Err(v), _) | (_, _, Err(v)) => return v };
    let (sa, sb, sab) = match (ra, rb, rab) {
        (Run::Ok(x), Run::Ok(y), Run::Ok(z)) => (x, y, z),
        (Run::Ok(_), Run::RunErr(eb), Run::RunErr(eab)) => {
            // B alone cannot be processed at all; A alone can: A+B must not fail as a whole
            return known_or_fail("F-08a", format!("a problem confined to securities {:?} ({eb}) makes the whole run fail ({eab}); securities {:?} are lost\nopening={:?}\n{csv}", b, a, c.all.opening));
        }
        (Run::RunErr(ea), Run::Ok(_), Run::RunErr(eab)) => return known_or_fail("F-08a", format!("a problem confined to securities {:?} ({ea}) makes the whole run fail ({eab})\n{csv}", a)),
        (Run::RunErr(_), Run::RunErr(_), Run::RunErr(_)) => return Verdict::Skip("both-halves-fail-as-a-whole".into()),
        (Run::Ok(_), Run::Ok(_), Run::RunErr(e)) => return Verdict::Fail(format!("A alone and B alone run, A+B fails as a whole: {e}\n{csv}")),
        _ => return Verdict::Fail(format!("inconsistent run-level outcomes\n{csv}")),
    };
    for (name, part) in [("A", &sa), ("B", &sb)] {
        for (sec, t) in &part.secs {
            let Some(t2) = sab.secs.get(sec) else { return Verdict::Fail(format!("security {sec} missing from the combined run\n{csv}")); };
            if t != t2 { let d = t.diff(t2, &format!("table {sec} ({name} alone vs combined)")).unwrap_or_else(|| "tables differ in the last digits".into()); return Verdict::Fail(format!("{d}\nopening={:?}\n{csv}", c.all.opening)); }
        }
    }
    if sab.secs.len() != sa.secs.len() + sb.secs.len() { return Verdict::Fail(format!("combined run shows {} tables, parts {} + {}\n{csv}", sab.secs.len(), sa.secs.len(), sb.secs.len())); }
    // aggregate(A+B) = aggregate(A) + aggregate(B)
    let (Some(ga), Some(gb), Some(gab)) = (aggregate_gains(&sa.aggregate), aggregate_gains(&sb.aggregate), aggregate_gains(&sab.aggregate)) else { return Verdict::Fail("cannot read aggregate tables".into()); };
    let tol = tol9();
    let mut want: BTreeMap<i32, Rat> = BTreeMap::new();
    for (y, v) in ga.1.iter().chain(gb.1.iter()) { let e = want.entry(*y).or_insert(Rat::zero()); *e = e.add(v); }
    let got: BTreeMap<i32, Rat> = gab.1.iter().cloned().collect();
    if want.keys().collect::<Vec<_>>() != got.keys().collect::<Vec<_>>() { return Verdict::Fail(format!("aggregate years differ: parts {:?}, combined {:?}\n{csv}", want.keys(), got.keys())); }
    for (y, v) in &want { if !v.close(&got[y], &tol) { return Verdict::Fail(format!("aggregate {y}: combined {} but the parts add up to {}\n{csv}", got[y], v)); } }
    if !gab.0.close(&ga.0.add(&gb.0), &tol) { return Verdict::Fail(format!("aggregate total: combined {} but parts add up to {}\n{csv}", gab.0, ga.0.add(&gb.0))); }
    // ... and each security moves the aggregate by exactly its own totals: per year, the combined aggregate is the sum of the
    // yearly figures in the footers of the securities that were not rejected
    let mut own: BTreeMap<i32, Rat> = BTreeMap::new();
    let mut own_total = Rat::zero();
    for (sec, t) in &sab.secs {
        if !t.errors.is_empty() { continue; }
        let Some((tot, ys)) = crate::snapshot::footer_gains(t) else { if t.footer.iter().all(|c| c.trim().is_empty()) { continue; } return Verdict::Fail(format!("cannot read the footer of table {sec}\n{csv}")); };
        own_total = own_total.add(&tot);
        for (y, v) in ys { let e = own.entry(y).or_insert(Rat::zero()); *e = e.add(&v); }
    }
    for (y, v) in &own { match got.get(y) { Some(g) if g.close(v, &tol) => {} other => return Verdict::Fail(format!("aggregate {y}: shows {:?} but the securities' own {y} totals add up to {}\n{csv}", other.map(|r| r.to_string()), v)) } }
    for y in got.keys() { if !own.contains_key(y) { return Verdict::Fail(format!("aggregate has a row for {y} that no security's table has\n{csv}")); } }
    if !gab.0.close(&own_total, &tol) { return Verdict::Fail(format!("aggregate total {} but the securities' own totals add up to {}\n{csv}", gab.0, own_total)); }
    // the --csv-output-dir mode: a security that fails (even at its very first row) must not keep the files of the others, or the
    // aggregate file, from being written; the healthy securities' files are the ones a run without the failing half writes
    // (and, for a third of the inputs without any failure, each security's file is the one a run without the other half writes)
    let dir_without_failure = sab.secs.values().all(|t| t.errors.is_empty()) && c.all.rows.len() % 3 == 0;
    if dir_without_failure { obs.class("csv-output-dir-compared-without-a-failure"); }
    if (sab.secs.values().any(|t| !t.errors.is_empty()) && sa.secs.values().all(|t| t.errors.is_empty())) || dir_without_failure {
        let dir_of = |cs: &(LedgerCase, Vec<u8>)| -> Result<Vec<(String, String)>, Verdict> {
            let mut o = opts.clone(); o.symbol_base = crate::gen::symbol_base_strings(&cs.0.opening);
            match crate::observe::run_csv_dir(&files_of(&cs.0, &cs.1), &o) { Ok((f, _)) => Ok(f), Err(RunErr::Panic(p)) => Err(classify_panic(&p, &csv)), Err(RunErr::Run(e)) | Err(RunErr::BadInit(e)) => Err(Verdict::Fail(format!("--csv-output-dir run failed: {e}\n{csv}"))) }
        };
        let fa = match dir_of(&sub_case(&c.all, &c.layout, &a)) { Ok(f) => f, Err(v) => return v };
        let fab = match dir_of(&(c.all.clone(), c.layout.clone())) { Ok(f) => f, Err(v) => return v };
        for (name, text) in &fa {
            if name.to_lowercase().contains("aggregate") { if !fab.iter().any(|(n, _)| n == name) { return Verdict::Fail(format!("--csv-output-dir: {name} is not written when another security fails (files written: {:?})\n{csv}", fab.iter().map(|f| &f.0).collect::<Vec<_>>())); } continue; }
            match fab.iter().find(|(n, _)| n == name) { None => return Verdict::Fail(format!("--csv-output-dir: {name} is written when its securities run alone but not next to a failing security (files written: {:?})\n{csv}", fab.iter().map(|f| &f.0).collect::<Vec<_>>())), Some((_, t2)) => { if t2.to_lowercase() != text.to_lowercase() /* affiliate display spelling: first spelling seen in the run wins */ { return Verdict::Fail(format!("--csv-output-dir: {name} differs from the file a run without the other half writes\n{csv}")); } } }
        }
        obs.class("csv-output-dir-next-to-a-failing-security");
    }
    let b_failed = sb.secs.values().any(|t| !t.errors.is_empty());
    let a_has_gain = sa.secs.values().any(|t| t.rows.iter().any(|r| r[9] != "-"));
    if b_failed && a_has_gain { obs.nt("B-fails-bookkeeping-and-A-has-gains"); }
    if b_failed { obs.class("B-has-rejected-security"); }
    if !c.planted.is_empty() { obs.class(format!("planted:{}", c.planted.split(':').nth(1).unwrap_or(""))); }
    if !c.all.opening.is_empty() { obs.class("opening-position"); }
    if !c.layout.is_empty() { obs.class(format!("files:{}", files_of(&c.all, &c.layout).len())); }
    if opts.stale_cache_until.is_some() { obs.class("rate-cache-left-by-an-earlier-run"); }
    if opts.forced_over_wrong_cache { obs.class("force-download-over-a-wrong-cache"); }
    Verdict::Pass
}

pub fn def() -> PropDef {
    let mut d = PropDef::new("C08", "a generated multi-security input is split into two inputs A and B over disjoint symbols (B optionally carrying a planted bookkeeping failure from the C04 list, or a split combination the tool refuses), keeping the original interleaving for A+B (a third of the cases spread the rows over two or three input files, the same spread in all three runs; rows may carry a USD commission whose rate the tool looks up itself next to an amount that needs no look-up; some start from an exchange-rate cache as an earlier run in the middle of the history would have left it, some run with --force-download over a cache whose every rate is wrong); three runs. Every cell of every table of A (resp. B) must be identical in A+B; aggregate(A+B) per year = aggregate(A) + aggregate(B) = sum of the accepted securities' own yearly footers, within 1e-9; A+B must not fail as a whole when only one half has a problem; with a failing half, --csv-output-dir must still write the healthy securities' files (identical to a run without the failing half) and the aggregate file. Non-trivial = B contains a bookkeeping failure and A has at least one gain-bearing row. Distinct = distinct case content.");
    d.assumptions = vec!["affiliate display spelling is normalised (first spelling seen wins in the tool; not a figure)"];
    d.subs.push(Box::new(Sub::<SplitCase> { name: "split", cases_quick: 36_000, cases_thorough: 500_000, strategy: Box::new(strategy), to_json: SplitCase::to_json, from_json: SplitCase::from_json, check }));
    d
}
