//! C11 — writing transactions to CSV and reading them back is the identity (round trip).
use super::PropDef;
use crate::engine::{guard, known_or_fail, Obs, Sub, Tier, Verdict};
use acb::portfolio::io::tx_csv::{parse_tx_csv, write_txs_to_csv, TxCsvParseOptions};
use acb::portfolio::{Affiliate, BuyTxSpecifics, CsvTx, Currency, CurrencyAndExchangeRate, RocTxSpecifics, SFLInput, SellTxSpecifics, SflaTxSpecifics, SplitRatio, SplitTxSpecifics, Tx, TxActionSpecifics};
use acb::util::decimal::{GreaterEqualZeroDecimal, LessEqualZeroDecimal, PosDecimal};
use acb::util::rw::{DescribedReader, StringBuffer, WriteHandle};
use json::JsonValue;
use proptest::prelude::*;
use rust_decimal::Decimal;
use std::str::FromStr;

#[derive(Clone, Debug, PartialEq)]
pub struct TxSpec {
    pub sec: String, pub td: String, pub sd: String, pub act: String,
    pub shares: String, pub price: String, pub comm: String,
    pub cur: String, pub rate: String,
    pub ccur: Option<String>, pub crate_: String,
    pub af: String,
    pub split_post: String, pub split_pre: String, pub split_int_only: bool,
    pub sfl: Option<(String, bool)>,
    pub memo: String,
}

impl TxSpec {
    fn to_json(&self) -> JsonValue {
        json::object! { sec: self.sec.as_str(), td: self.td.as_str(), sd: self.sd.as_str(), act: self.act.as_str(), shares: self.shares.as_str(), price: self.price.as_str(), comm: self.comm.as_str(), cur: self.cur.as_str(), rate: self.rate.as_str(),
            ccur: match &self.ccur { Some(c) => c.as_str().into(), None => JsonValue::Null }, crate: self.crate_.as_str(), af: self.af.as_str(), split_post: self.split_post.as_str(), split_pre: self.split_pre.as_str(), split_int_only: self.split_int_only,
            sfl: match &self.sfl { Some((v, f)) => json::object! { v: v.as_str(), force: *f }, None => JsonValue::Null }, memo: self.memo.as_str() }
    }
    fn from_json(v: &JsonValue) -> Option<TxSpec> {
        let s = |k: &str| v[k].as_str().map(|x| x.to_string());
        Some(TxSpec { sec: s("sec")?, td: s("td")?, sd: s("sd")?, act: s("act")?, shares: s("shares")?, price: s("price")?, comm: s("comm")?, cur: s("cur")?, rate: s("rate")?, ccur: v["ccur"].as_str().map(|x| x.to_string()), crate_: s("crate")?, af: s("af")?,
            split_post: s("split_post")?, split_pre: s("split_pre")?, split_int_only: v["split_int_only"].as_bool()?, sfl: if v["sfl"].is_null() { None } else { Some((v["sfl"]["v"].as_str()?.to_string(), v["sfl"]["force"].as_bool()?)) }, memo: s("memo")? })
    }
}

fn dec(s: &str) -> Decimal { Decimal::from_str(s).unwrap_or_else(|e| panic!("harness: bad decimal {s}: {e}")) }
fn car(cur: &str, rate: &str) -> CurrencyAndExchangeRate {
    let c = Currency::new(cur);
    if c.is_default() { CurrencyAndExchangeRate::default() } else { CurrencyAndExchangeRate::try_new(c, PosDecimal::try_from(dec(rate)).unwrap()).unwrap() }
}

fn build(spec: &TxSpec, ix: u32) -> Tx {
    let date = |s: &str| crate::gen::parse_date(s).unwrap();
    let common = || BuyTxSpecifics {
        shares: PosDecimal::try_from(dec(&spec.shares)).unwrap(),
        amount_per_share: GreaterEqualZeroDecimal::try_from(dec(&spec.price)).unwrap(),
        commission: GreaterEqualZeroDecimal::try_from(dec(&spec.comm)).unwrap(),
        tx_currency_and_rate: car(&spec.cur, &spec.rate),
        separate_commission_currency: spec.ccur.as_ref().map(|c| car(c, &spec.crate_)),
    };
    let specifics = match spec.act.as_str() {
        "Buy" => TxActionSpecifics::Buy(common()),
        "Sell" => TxActionSpecifics::Sell(SellTxSpecifics::from_common_buy_sell_attrs(&common(), spec.sfl.as_ref().map(|(v, f)| SFLInput { superficial_loss: LessEqualZeroDecimal::try_from(dec(v)).unwrap(), force: *f }))),
        "RoC" => TxActionSpecifics::Roc(RocTxSpecifics { amount_per_held_share: GreaterEqualZeroDecimal::try_from(dec(&spec.price)).unwrap(), tx_currency_and_rate: car(&spec.cur, &spec.rate) }),
        "SfLA" => TxActionSpecifics::Sfla(SflaTxSpecifics { shares_affected: PosDecimal::try_from(dec(&spec.shares)).unwrap(), amount_per_share: PosDecimal::try_from(dec(&spec.price)).unwrap() }),
        _ => TxActionSpecifics::Split(SplitTxSpecifics { ratio: SplitRatio { pre_split: PosDecimal::try_from(dec(&spec.split_pre)).unwrap(), post_split: PosDecimal::try_from(dec(&spec.split_post)).unwrap(), reverse_integer_only: spec.split_int_only } }),
    };
    Tx { security: spec.sec.clone(), trade_date: date(&spec.td), settlement_date: date(&spec.sd), action_specifics: specifics, memo: spec.memo.clone(), affiliate: if spec.af == "__global__" { Affiliate::global() } else { Affiliate::from_strep(&spec.af) }, read_index: ix }
}

// ---------- generators ----------
fn decimal_string(pos: bool) -> BoxedStrategy<String> {
    // scale 0..28, mantissa up to 96 bits; trailing zeros kept in some
    let small = (if pos { 1u64 } else { 0u64 }..1_000_000u64, 0u32..7).prop_map(|(m, s)| Decimal::new(m as i64, s).to_string());
    let wide = (any::<u64>(), any::<u32>(), 0u32..=28).prop_map(move |(lo, hi, s)| { let m = ((hi as u128) << 64 | lo as u128).max(if pos { 1 } else { 0 }); Decimal::from_i128_with_scale(m as i128, s).to_string() });
    let zeros = (1u64..100000, 0u32..5, 1usize..4).prop_map(|(m, s, z)| { let d = Decimal::new(m as i64, s).to_string(); if d.contains('.') { format!("{d}{}", "0".repeat(z)) } else { format!("{d}.{}", "0".repeat(z)) } });
    let tiny = Just("0.0000000000000000000000000001".to_string());
    let round = prop_oneof![Just("1".to_string()), Just("10".to_string()), Just("100.00".to_string()), Just("0.5".to_string()), Just("3.3333333333".to_string())];
    if pos { prop_oneof![4 => small, 2 => wide, 1 => zeros, 1 => tiny, 2 => round].boxed() } else { prop_oneof![1 => Just("0".to_string()), 1 => Just("0.00".to_string()), 4 => small, 2 => wide, 1 => zeros, 2 => round].boxed() }
}

fn memo_strategy() -> BoxedStrategy<String> {
    prop_oneof![
        3 => Just(String::new()),
        2 => "[a-zA-Z0-9 ]{1,20}",
        1 => Just("note, with comma".to_string()), 1 => Just("say \"quoted\" text".to_string()), 1 => Just("line one\nline two".to_string()), 1 => Just("crlf\r\ninside".to_string()),
        1 => Just("caf\u{e9} \u{65e5}\u{672c} \u{1F600}".to_string()), 1 => Just("  padded memo  ".to_string()), 1 => Just("\ttab lead".to_string()), 1 => Just(",\",\"".to_string()), 1 => Just("'single' ; semi".to_string()),
        1 => "[ -~]{1,30}",
    ].boxed()
}

fn date_strategy() -> BoxedStrategy<String> { (1900i32..=2100, 1u8..=12, 1u8..=28).prop_map(|(y, m, d)| format!("{y:04}-{m:02}-{d:02}")).boxed() }

fn spec_strategy() -> BoxedStrategy<TxSpec> {
    let act = prop_oneof![3 => Just("Buy"), 3 => Just("Sell"), 1 => Just("RoC"), 1 => Just("SfLA"), 2 => Just("Split")];
    let cur = prop_oneof![3 => Just("CAD"), 3 => Just("USD"), 1 => Just("EUR"), 1 => Just("xbt")];
    let ccur = prop_oneof![4 => Just(None), 1 => Just(Some("CAD".to_string())), 1 => Just(Some("USD".to_string())), 1 => Just(Some("GBP".to_string()))];
    let af = prop_oneof![4 => Just(""), 1 => Just("Default"), 1 => Just(" default "), 2 => Just("Spouse"), 1 => Just("SPOUSE"), 1 => Just("(R)"), 1 => Just("spouse(R)"), 1 => Just("(r) Default"), 1 => Just("My  Kid"), 1 => Just("B (R)"), 1 => Just("__global__")];
    let sec = prop_oneof![3 => Just("FOO".to_string()), 1 => Just("XYZ.TO".to_string()), 1 => Just("BRK B".to_string()), 1 => Just("abc".to_string()), 1 => "[A-Z0-9.]{1,8}", 1 => Just("A,B".to_string())];
    let split = prop_oneof![
        (1u32..20, 1u32..20, any::<bool>()).prop_map(|(a, b, f)| (a.to_string(), b.to_string(), f)),
        (1u32..20, 1u32..20, 1u32..3).prop_map(|(a, b, z)| (format!("{a}.{}", "0".repeat(z as usize)), format!("{b}.0"), false)),
        ((1u64..1_000_000_000, 0u32..7), (1u64..1_000_000_000, 0u32..7)).prop_map(|((a, sa), (b, sb))| (Decimal::new(a as i64, sa).to_string(), Decimal::new(b as i64, sb).to_string(), false)),
        Just(("1.5".to_string(), "1".to_string(), false)),
    ];
    let sfl = prop_oneof![3 => Just(None), 2 => (decimal_string(false), any::<bool>()).prop_map(|(v, f)| Some((if v.trim_matches(|c| c == '0' || c == '.').is_empty() { v } else { format!("-{v}") }, f)))];
    ((sec, date_strategy(), date_strategy(), act), (decimal_string(true), decimal_string(false), decimal_string(false), cur, decimal_string(true)), (ccur, decimal_string(true), af, split, sfl, memo_strategy()))
        .prop_map(|((sec, td, sd, act), (shares, price, comm, cur, rate), (ccur, crate_, af, split, sfl, memo))| {
            let mut s = TxSpec { sec, td, sd, act: act.to_string(), shares, price, comm, cur: cur.to_string(), rate, ccur, crate_, af: af.to_string(), split_post: split.0, split_pre: split.1, split_int_only: split.2, sfl, memo };
            // validity rules of the model: only splits may address all affiliates; SfLA amount positive; whole-number flag only for integer reverse ratios
            if s.act != "Split" && s.af == "__global__" { s.af = String::new(); }
            if s.act == "SfLA" && dec(&s.price).is_zero() { s.price = "0.01".into(); }
            let (post, pre) = (dec(&s.split_post), dec(&s.split_pre));
            let reverse = pre > post;
            let both_plain_integers = !s.split_post.contains('.') && !s.split_pre.contains('.');
            s.split_int_only = reverse && both_plain_integers && s.split_int_only;
            if s.act != "Sell" { s.sfl = None; }
            s
        }).boxed()
}

#[derive(Clone, Debug)]
pub struct TxList { pub txs: Vec<TxSpec> }
fn strategy(_t: Tier) -> BoxedStrategy<TxList> { proptest::collection::vec(spec_strategy(), 0..=8).prop_map(|txs| TxList { txs }).boxed() }

fn write(txs: &[Tx]) -> Result<String, String> {
    let csvtxs: Vec<CsvTx> = txs.iter().map(|t| t.to_csvtx()).collect();
    let mut buf = StringBuffer::new();
    write_txs_to_csv(&csvtxs, &mut buf).map_err(|e| e.to_string())?;
    Ok(buf.export_string())
}
fn read(text: &str) -> Result<Vec<Tx>, String> {
    let mut rd = DescribedReader::from_string("roundtrip.csv".into(), text.to_string());
    let csvtxs = parse_tx_csv(&mut rd, 0, &TxCsvParseOptions::default(), &mut WriteHandle::empty_write_handle())?;
    csvtxs.into_iter().map(Tx::try_from).collect()
}

pub fn tx_diff(a: &Tx, b: &Tx, only_default_affiliates: bool) -> Option<String> {
    if a.security != b.security { return Some(format!("security {:?} vs {:?}", a.security, b.security)); }
    if a.trade_date != b.trade_date || a.settlement_date != b.settlement_date { return Some("dates differ".into()); }
    if a.action_specifics != b.action_specifics { return Some(format!("action specifics differ:\n   written {:?}\n   re-read {:?}", a.action_specifics, b.action_specifics)); }
    if a.memo.trim() != b.memo { return Some(format!("memo {:?} vs {:?}", a.memo, b.memo)); }
    let same_af = a.affiliate.id() == b.affiliate.id();
    let split_default_to_global = matches!(a.action_specifics, TxActionSpecifics::Split(_)) && a.affiliate.id() == "default" && b.affiliate.is_global() && only_default_affiliates;
    if !same_af && !split_default_to_global { return Some(format!("affiliate {} vs {}", a.affiliate.id(), b.affiliate.id())); }
    None
}

fn check(c: &TxList, obs: &mut Obs) -> Verdict {
    crate::observe::reset_globals(crate::observe::far_today());
    let r = guard(|| -> Result<Verdict, String> {
        let x: Vec<Tx> = c.txs.iter().enumerate().map(|(i, s)| build(s, i as u32)).collect();
        let b1 = write(&x)?;
        let x2 = read(&b1).map_err(|e| format!("the reader rejects what the writer wrote: {e}\n--- written\n{b1}"))?;
        if x.len() != x2.len() { return Ok(Verdict::Fail(format!("{} transactions written, {} read back\n--- written\n{b1}", x.len(), x2.len()))); }
        let only_default = x.iter().all(|t| t.affiliate.id() == "default" || t.affiliate.is_global());
        for (i, (a, b)) in x.iter().zip(x2.iter()).enumerate() {
            if let Some(d) = tx_diff(a, b, only_default) { return Ok(Verdict::Fail(format!("transaction {i} changed in the round trip: {d}\n--- written\n{b1}"))); }
        }
        // second write must reproduce the bytes (of the list with trimmed memos)
        let xp: Vec<Tx> = x.iter().map(|t| { let mut t = t.clone(); t.memo = t.memo.trim().to_string(); t }).collect();
        let b1p = write(&xp)?;
        let b2 = write(&x2)?;
        if b2 != b1p {
            let detail = format!("writing the re-read list gives different bytes\n--- first write\n{b1p}--- second write\n{b2}");
            if b2.contains("__global__") && !b1p.contains("__global__") { return Ok(known_or_fail("F-11a", detail)); }
            return Ok(Verdict::Fail(detail));
        }
        Ok(Verdict::Pass)
    });
    let v = match r { Err(p) => return Verdict::Fail(format!("panic in write/read: {}", p.sig())), Ok(Err(e)) => return Verdict::Fail(e), Ok(Ok(v)) => v };
    if let Verdict::Pass = v {
        for s in &c.txs {
            let sig = |d: &str| d.chars().filter(|c| c.is_ascii_digit()).collect::<String>().trim_start_matches('0').len();
            if [&s.shares, &s.price, &s.comm, &s.rate].iter().any(|d| sig(d) >= 12) { obs.nt("value-with->=12-significant-digits"); }
            if s.memo.contains(',') || s.memo.contains('"') || s.memo.contains('\n') { obs.nt("memo-needing-quotes"); }
            if s.act == "Split" { obs.nt("split"); if s.af == "__global__" { obs.class("split-for-all"); } if s.split_int_only { obs.class("whole-number-reverse-split"); } }
            if !s.af.trim().is_empty() && s.af.to_lowercase().trim() != "default" { obs.nt("non-default-affiliate"); }
            if s.sfl.is_some() { obs.class("declared-sfl"); }
            if s.ccur.is_some() { obs.class("separate-commission-currency"); }
        }
        if c.txs.is_empty() { obs.class("empty-list"); }
    }
    v
}

pub fn def() -> PropDef {
    let mut d = PropDef::new("C11", "lists of 0-8 valid transactions built through the model's public types (every action; decimals with scale 0-28 and up to 96-bit mantissas, trailing zeros, 1e-28; CAD/USD/other currencies with and without separate commission currency; affiliate spellings incl. registered and the all-affiliates marker on splits; declared SfL with/without '!' and zero; split ratios integer / decimal / whole-number-only; memos with commas, quotes, CR/LF, tabs, non-ASCII, padding): write -> read -> compare field by field (decimals numerically, memo up to surrounding whitespace, default-affiliate split may return as all-affiliates split when no other affiliate is named) -> write again and compare bytes with the first write of the memo-trimmed list. Non-trivial = list containing a value with >= 12 significant digits, a memo needing CSV quoting, a split, or a non-default affiliate. Distinct = distinct case content.");
    d.assumptions = vec!["securities have no surrounding whitespace (the reader trims cells)", "split-ratio terms stay below 1e9 with at most 6 decimals (a 28-digit whole-number term written with one decimal place no longer fits a Decimal; outside any practical range)", "the reader-first direction (arbitrary bytes) is covered by the fuzz target csv_roundtrip"];
    d.subs.push(Box::new(Sub::<TxList> { name: "roundtrip", cases_quick: 240_000, cases_thorough: 3_000_000, strategy: Box::new(strategy), to_json: |c| json::object! { txs: c.txs.iter().map(|t| t.to_json()).collect::<Vec<_>>() }, from_json: |v| { let t: Option<Vec<TxSpec>> = v["txs"].members().map(TxSpec::from_json).collect(); Some(TxList { txs: t? }) }, check }));
    d
}
