//! C16 — --symbol-base equals an opening purchase (differential: -b strings vs prepended Buy rows).
use super::common::*;
use super::PropDef;
use crate::engine::{Obs, Stats, Sub, Tier, Verdict};
use crate::gen::{GenParams, HRow};
use crate::model::{affiliate_id, Act};
use crate::observe::{run_render, RunErr, RunOpts};
use crate::snapshot::Snap;
use json::JsonValue;
use proptest::prelude::*;
use time::Duration;

#[derive(Clone, Debug)]
pub struct BaseCase { pub ledger: LedgerCase, pub extra_opening: Vec<(String, String, String)>, pub costs: bool }

impl BaseCase {
    fn to_json(&self) -> JsonValue { let mut j = self.ledger.to_json(); j["extra_opening"] = JsonValue::Array(self.extra_opening.iter().map(|(s, n, c)| format!("{s}:{n}:{c}").into()).collect()); j["costs"] = self.costs.into(); j }
    fn from_json(v: &JsonValue) -> Option<BaseCase> {
        let extra: Option<Vec<(String, String, String)>> = v["extra_opening"].members().map(|o| { let p: Vec<&str> = o.as_str()?.split(':').collect(); if p.len() == 3 { Some((p[0].into(), p[1].into(), p[2].into())) } else { None } }).collect();
        Some(BaseCase { ledger: LedgerCase::from_json(v)?, extra_opening: extra?, costs: v["costs"].as_bool().unwrap_or(false) })
    }
}

fn strategy(tier: Tier) -> BoxedStrategy<BaseCase> {
    let mut p = GenParams::ledger();
    p.max_rows = tier.pick(14, 30);
    p.opening_all_secs = true;
    let mut mixed = p.clone();
    mixed.secs = vec!["Brk.b", "xeqt", "FOO"]; // symbols that are not all upper case
    // a security that is only ever SOLD (its shares all come from the opening position), one of the sales at a loss with a forced declared
    // superficial loss - possible only with an opening position
    let only_sold = (0usize..3, 0usize..4, any::<bool>()).prop_map(|(ni, vi, two)| {
        use crate::gen::ymd;
        let (n, cost) = [("10", "100"), ("30", "450"), ("7", "100.01")][ni];
        let mk = |m: u8, d: u8, sh: &str, px: &str, sfl: &str| { let dt = ymd(2021, m, d); let mut r = HRow::new("FOO", dt, dt, Act::Sell); r.shares = sh.into(); r.price = px.into(); r.sfl = sfl.into(); r };
        let mut rows = vec![mk(3, 1, "3", "5", ["-12!", "-5!", "0!", "-0.5!"][vi])];
        if two { rows.push(mk(6, 1, "2", "20", "")); }
        let mut other = HRow::new("BAR", ymd(2021, 2, 1), ymd(2021, 2, 1), Act::Buy); other.shares = "5".into(); other.price = "10".into();
        rows.insert(0, other);
        LedgerCase { rows, opening: vec![("FOO".into(), n.into(), cost.into())], tags: vec!["security-only-sold".into()] }
    });
    (prop_oneof![6 => ledger_strategy(p, 1), 2 => ledger_strategy(mixed, 1), 1 => only_sold.boxed()], any::<u16>(), any::<bool>()).prop_map(|(ledger, x, costs)| {
        // opening positions of symbols that do not occur in the input must change nothing
        let extra = match x % 4 { 0 => vec![], 1 => vec![("ZZZ".to_string(), "5".to_string(), "100".to_string())], 2 => vec![("ZZZ".into(), "0.25".into(), "0".into()), ("QQQ.UN".into(), "1000".into(), "12345.67".into())], _ => vec![("foo".into(), "3".into(), "30".into())] };
        BaseCase { ledger, extra_opening: extra, costs }
    }).boxed()
}

fn check(c: &BaseCase, obs: &mut Obs) -> Verdict {
    let l = &c.ledger;
    if l.rows.is_empty() { return Verdict::Skip("empty".into()); }
    let files = l.files();
    let csv = &files[0].1;
    // run 1: opening positions as -b strings
    let mut o1 = l.run_opts();
    o1.symbol_base.extend(crate::gen::symbol_base_strings(&c.extra_opening));
    // run 2: the same rows preceded by one purchase per opening position of a symbol in the input
    let first = l.rows.iter().map(|r| r.sd.min(r.td)).min().unwrap();
    let mut pre: Vec<HRow> = vec![];
    let present = |sym: &String| l.rows.iter().any(|r| &r.sec == sym);
    for (sym, n, cost) in &l.opening {
        if crate::bigrat::Rat::parse(n).unwrap().is_zero() { continue; } // zero shares (and zero cost) = no purchase
        if !present(sym) { continue; } // an opening position of a symbol not in the input must simply have no effect
        let d = first - Duration::days(400);
        let mut r = HRow::new(sym, d, d, Act::Buy);
        r.shares = n.clone(); r.price = "0".into(); r.comm = cost.clone();
        pre.push(r);
    }
    let mut rows2 = pre.clone();
    rows2.extend(l.rows.iter().cloned());
    let files2 = vec![("opening.csv".to_string(), crate::gen::to_csv(&pre)), files[0].clone()];
    let o2 = RunOpts { symbol_base: vec![], usd_years: o1.usd_years, date_fmt: None, stale_cache_until: None, forced_over_wrong_cache: false };
    let r1 = match run_render(&files, &o1, true, c.costs) { Ok(r) => r, Err(RunErr::Panic(p)) => return classify_panic(&p, csv), Err(RunErr::Run(e)) => return Verdict::Skip(format!("run-error:{}", e.split_whitespace().take(3).collect::<Vec<_>>().join("_"))), Err(RunErr::BadInit(e)) => return Verdict::Fail(format!("well-formed opening positions rejected: {e} ({:?})", o1.symbol_base)) };
    let r2 = match run_render(&files2, &o2, true, c.costs) { Ok(r) => r, Err(RunErr::Panic(p)) => return classify_panic(&p, csv), Err(RunErr::Run(e)) => return Verdict::Fail(format!("run with prepended purchases fails ({e}) while the -b run succeeds\n{csv}")), Err(RunErr::BadInit(e)) => return Verdict::Fail(e) };
    let (s1, mut s2) = (Snap::of(&r1.res).normalized(), Snap::of(&r2.res).normalized());
    // drop the prepended purchase row from each table of run 2
    for (sym, n, _) in &l.opening {
        if crate::bigrat::Rat::parse(n).unwrap().is_zero() { continue; }
        if let Some(t) = s2.secs.get_mut(sym) { if !t.rows.is_empty() { t.rows.remove(0); } }
    }
    let ctx = || format!("-b {:?}\n{csv}", o1.symbol_base);
    if s1.secs.keys().collect::<Vec<_>>() != s2.secs.keys().collect::<Vec<_>>() { return Verdict::Fail(format!("tables differ: {:?} vs {:?}\n{}", s1.secs.keys(), s2.secs.keys(), ctx())); }
    for (sec, t1) in &s1.secs {
        let t2 = &s2.secs[sec];
        // a rejection message may quote figures; compare presence only
        let (mut a, mut b) = (t1.clone(), t2.clone());
        if !a.errors.is_empty() && !b.errors.is_empty() { a.errors.clear(); b.errors.clear(); }
        if let Some(d) = a.diff(&b, &format!("table {sec} (-b vs prepended purchase)")) { return Verdict::Fail(format!("{d}\n{}", ctx())); }
    }
    if let Some(d) = s1.aggregate.diff(&s2.aggregate, "aggregate gains") { return Verdict::Fail(format!("{d}\n{}", ctx())); }
    // --total-costs: the run with prepended purchases shows one more dated row (the day of those purchases, in a year of its own) and
    // otherwise the same rows.  Compared when no table is rejected and the default affiliate has a row of its own in every security with
    // an opening position (the tables track securities by the default affiliate's rows).
    if c.costs {
        let opened: Vec<&String> = l.opening.iter().filter(|(sym, n, _)| !crate::bigrat::Rat::parse(n).unwrap().is_zero() && present(sym)).map(|o| &o.0).collect();
        let default_has_rows = opened.iter().all(|sym| l.rows.iter().any(|r| &&r.sec == sym && !r.is_global_split() && r.act != Act::Split && affiliate_id(&r.af).0 == "default"));
        let zero_share_cost = l.opening.iter().any(|(_, n, cst)| crate::bigrat::Rat::parse(n).unwrap().is_zero() && !crate::bigrat::Rat::parse(cst).map(|x| x.is_zero()).unwrap_or(true));
        let rejected = s1.secs.values().chain(s2.secs.values()).any(|t| !t.errors.is_empty());
        if !opened.is_empty() && default_has_rows && !zero_share_cost && !rejected {
            if let (Some((t1, y1)), Some((t2, y2))) = (&s1.costs, &s2.costs) {
                let d0 = first - Duration::days(400);
                let (mut t2c, mut y2c) = (t2.clone(), y2.clone());
                t2c.rows.retain(|r| r.first().map(|x| x.trim() != d0.to_string()).unwrap_or(true));
                y2c.rows.retain(|r| r.first().map(|x| x.trim() != d0.year().to_string()).unwrap_or(true));
                if let Some(d) = t1.diff(&t2c, "total costs (-b vs prepended purchase, its own day left out)").or_else(|| y1.diff(&y2c, "yearly max costs (-b vs prepended purchase, its own year left out)")) { return Verdict::Fail(format!("{d}\n{}", ctx())); }
                obs.class("total-costs-compared");
                if opened.iter().any(|sym| l.rows.iter().find(|r| &&r.sec == sym).map(|r| affiliate_id(&r.af).0 != "default").unwrap_or(false)) { obs.class("total-costs:first-row-of-opened-security-by-another-affiliate"); }
            }
        }
    }
    // classification
    for (sym, _, _) in &l.opening {
        let rows: Vec<&HRow> = l.rows.iter().filter(|r| &r.sec == sym).collect();
        if rows.is_empty() { continue; }
        let mut afs: Vec<String> = rows.iter().filter(|r| !r.is_global_split()).map(|r| affiliate_id(&r.af).0).collect(); afs.sort(); afs.dedup();
        if afs.len() >= 2 { obs.nt("opening-on-security-with-several-affiliates"); }
        if rows.iter().any(|r| r.is_global_split()) { obs.nt("opening-on-security-with-global-split"); }
        if !afs.contains(&"default".to_string()) { obs.nt("opening-but-default-affiliate-has-no-rows"); }
        obs.class("opening-present");
    }
    if !c.extra_opening.is_empty() { obs.class("opening-for-absent-symbol"); }
    if l.opening.iter().any(|o| o.1 == "0") { obs.class("zero-share-opening"); }
    Verdict::Pass
}

// ---------- malformed specifications ----------
#[derive(Clone, Debug)]
pub struct BadSpec { pub specs: Vec<String> }
fn bad_strategy(_t: Tier) -> BoxedStrategy<BadSpec> {
    let bad = prop_oneof![
        Just("FOO:10".to_string()), Just("FOO:10:1:1".to_string()), Just(":10:100".to_string()), Just("  :10:100".to_string()), Just("FOO:ten:100".to_string()), Just("FOO:10:abc".to_string()),
        Just("FOO:-1:100".to_string()), Just("FOO:1:-100".to_string()), Just("FOO".to_string()), Just("".to_string()), Just("FOO::".to_string()), Just("FOO:1e3:5".to_string()), Just("FOO:1,000:5".to_string()),
        "[A-Z]{1,4}:[0-9a-z.\\-]{0,6}:[0-9a-z.\\-]{0,6}".prop_filter("must be malformed", |s| { let p: Vec<&str> = s.split(':').collect(); !(p.len() == 3 && !p[0].trim().is_empty() && ok_num(p[1]) && ok_num(p[2])) }),
    ];
    (proptest::collection::vec(prop_oneof![Just("BAR:1:1".to_string()), Just("XYZ:0.5:0".to_string())], 0..3), bad, any::<u8>()).prop_map(|(mut good, b, pos)| { let i = pos as usize % (good.len() + 1); good.insert(i, b); BadSpec { specs: good } }).boxed()
}
fn ok_num(s: &str) -> bool { use std::str::FromStr; rust_decimal::Decimal::from_str(s).map(|d| !d.is_sign_negative() || d.is_zero()).unwrap_or(false) }

fn check_bad(c: &BadSpec, obs: &mut Obs) -> Verdict {
    match crate::engine::guard(|| acb::app::input_parse::parse_initial_status(&c.specs)) {
        Err(p) => Verdict::Fail(format!("panic while parsing opening positions {:?}: {}", c.specs, p.sig())),
        Ok(Ok(_)) => Verdict::Fail(format!("malformed opening position accepted: {:?}", c.specs)),
        Ok(Err(e)) => { if e.trim().is_empty() { return Verdict::Fail("empty error message".into()); } obs.nt("malformed-rejected"); obs.shape = Some(c.specs.join("|")); Verdict::Pass }
    }
}

/// Binary level: a malformed -b must be reported before any input file is opened.
fn binary_order(_tier: Tier, _seed: u64, idx: u64, _of: u64, stats: &mut Stats) {
    if idx != 0 { return; }
    let exe = std::env::current_exe().unwrap().parent().unwrap().join("acb_cli");
    let mut n = 0u64;
    // (blank values as a wrapper script passing -b "$BASE" with an unset variable produces them, alone and next to a good value)
    for spec in ["FOO:10", ":1:2", "FOO:x:1", "FOO:1:-5", "", " ", "\t", "BAR:1:1| ", "|BAR:1:1"] {
        let mut cmd = std::process::Command::new(&exe);
        cmd.arg("/nonexistent/dir/input.csv");
        for one in spec.split('|') { cmd.arg("-b").arg(one); }
        let out = cmd.output();
        match out {
            Ok(o) => {
                let err = String::from_utf8_lossy(&o.stderr).to_string() + &String::from_utf8_lossy(&o.stdout);
                // (which words the message uses is the tool's business; that it comes before any file is touched is the property's)
                if o.status.success() || err.trim().is_empty() || err.contains("input.csv") || err.contains("No such file") {
                    stats.failures.push(crate::engine::Failure { prop: "C16".into(), sub: "malformed".into(), message: format!("acb -b {spec:?} <unreadable file>: expected an error about --symbol-base before any file is read; status {:?}, output: {err}", o.status), case: json::object! { specs: vec![spec] } });
                }
                n += 1;
            }
            Err(e) => stats.infra_errors.push(format!("cannot run acb_cli: {e}")),
        }
    }
    stats.extra.insert("binary_malformed_runs".into(), n.into());
}

pub fn def() -> PropDef {
    let mut d = PropDef::new("C16", "generated inputs (ledger generator: several affiliates, global splits, early loss sales, optional total-costs) whose securities get opening positions (fractional, zero-cost, zero shares) given as SYM:n:c strings, plus opening positions of symbols absent from the input; compared with the same rows preceded by a Buy of n shares at price 0 with commission c by the default affiliate 400 days before the first row: every cell of every row of the original input, footers and the aggregate table must agree (money within 1e-9), and so must the --total-costs tables once the purchases' own day and year are left out (when nothing is rejected and the default affiliate has rows of its own in each opened security). Malformed specifications (wrong arity, empty symbol, non-numeric, negative) must be rejected, at binary level before any file is opened. Non-trivial = an opening position on a security with >= 2 affiliates, or with a split for all affiliates, or whose default affiliate has no rows; or a malformed specification. Distinct = distinct case content.");
    d.assumptions = vec!["zero shares is compared with 'no purchase' (a Buy of zero shares is not a valid row)", "total-costs tables are compared with the prepended purchases' own day and year left out, when no security is rejected and the default affiliate has rows of its own in every security with an opening position"];
    d.subs.push(Box::new(Sub::<BaseCase> { name: "opening", cases_quick: 60_000, cases_thorough: 1_200_000, strategy: Box::new(strategy), to_json: BaseCase::to_json, from_json: BaseCase::from_json, check }));
    d.subs.push(Box::new(Sub::<BadSpec> { name: "malformed", cases_quick: 12_000, cases_thorough: 200_000, strategy: Box::new(bad_strategy), to_json: |c| json::object! { specs: c.specs.clone() }, from_json: |v| Some(BadSpec { specs: v["specs"].members().filter_map(|x| x.as_str().map(|s| s.to_string())).collect() }), check: check_bad }));
    d.extra = Some(binary_order);
    d
}
