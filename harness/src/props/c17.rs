//! C17 — total-cost tables show the true maximum cost held (recomputation from the tool's own ledger).
use super::common::*;
use super::PropDef;
use crate::bigrat::{tol9, Rat};
use crate::engine::{known_or_fail, Obs, Sub, Tier, Verdict};
use crate::gen::GenParams;
use crate::observe::{run_deltas, run_render, RunErr};
use crate::snapshot::{money, Snap};
use proptest::prelude::*;
use std::collections::{BTreeMap, BTreeSet};
use time::Date;

fn strategy(tier: Tier) -> BoxedStrategy<LedgerCase> {
    let mut p = GenParams::ledger();
    p.max_rows = tier.pick(18, 36);
    p.secs = vec!["FOO", "BAR", "XYZ.TO", "AAA"];
    p.usd_norate = false;
    p.afs = vec!["", "Spouse", "(R)"]; // most rows by the default affiliate, some to be "ignored"
    p.manual_sfla = false;
    ledger_strategy(p, 3)
}

fn check(case: &LedgerCase, obs: &mut Obs) -> Verdict {
    // a third of the histories are handed over as two or three files (same row order)
    let files = case.files_maybe_split();
    let csv_joined: String = if files.len() == 1 { files[0].1.clone() } else { files.iter().map(|(n, t)| format!("--- {n}\n{t}")).collect() };
    let csv = &csv_joined;
    let opts = case.run_opts();
    let res = match run_deltas(&files, &opts) { Ok(r) => r, Err(RunErr::Panic(p)) => return classify_panic(&p, csv), Err(RunErr::Run(e)) => return Verdict::Skip(format!("run-error:{}", e.split_whitespace().take(3).collect::<Vec<_>>().join("_"))), Err(RunErr::BadInit(e)) => return Verdict::Fail(e) };
    if res.values().any(|s| s.err.is_some()) { return Verdict::Skip("some-security-rejected(property covers error-free inputs)".into()); }
    let r = match run_render(&files, &opts, true, true) { Ok(r) => r, Err(RunErr::Panic(p)) => return classify_panic(&p, csv), Err(_) => return Verdict::Fail("render failed".into()) };
    let snap = Snap::of(&r.res);
    let Some((total, yearly)) = &snap.costs else { return Verdict::Fail("no costs tables".into()); };
    // recompute from the default (non-registered) affiliate's rows of the tool's ledger
    let mut per_sec: BTreeMap<String, Vec<(Date, Rat)>> = BTreeMap::new();
    let mut opening_acb: BTreeMap<String, Rat> = BTreeMap::new();
    let mut ignored = 0usize;
    for (sec, sr) in &res {
        for d in &sr.deltas {
            if d.tx.affiliate.id() != "default" { ignored += 1; continue; }
            let Some(acb) = &d.post_status.total_acb else { ignored += 1; continue };
            let v = per_sec.entry(sec.clone()).or_default();
            if v.is_empty() { opening_acb.insert(sec.clone(), d.pre_status.total_acb.as_ref().map(|x| Rat::from_decimal(x)).unwrap_or(Rat::zero())); }
            v.push((d.tx.settlement_date, Rat::from_decimal(acb)));
        }
    }
    let secs: Vec<String> = per_sec.keys().cloned().collect();
    let days: BTreeSet<Date> = per_sec.values().flat_map(|v| v.iter().map(|x| x.0)).collect();
    let tol = tol9();
    let mut expect: BTreeMap<Date, (Rat, Vec<Rat>)> = BTreeMap::new();
    let mut day_max_vs_close = false;
    for day in &days {
        let mut figs = vec![];
        for s in &secs {
            let rows = &per_sec[s];
            let today: Vec<&Rat> = rows.iter().filter(|x| x.0 == *day).map(|x| &x.1).collect();
            let v = if !today.is_empty() { today.iter().fold(Rat::zero(), |m, x| m.max(x)) } else {
                match rows.iter().filter(|x| x.0 < *day).last() { Some(x) => x.1.clone(), None => opening_acb[s].clone() }
            };
            // is there an earlier day of this security whose maximum differs from its closing value?
            if today.is_empty() { if let Some(prev_day) = rows.iter().filter(|x| x.0 < *day).map(|x| x.0).last() { let pd: Vec<&Rat> = rows.iter().filter(|x| x.0 == prev_day).map(|x| &x.1).collect(); let mx = pd.iter().fold(Rat::zero(), |m, x| m.max(x)); if &mx != *pd.last().unwrap() { day_max_vs_close = true; } } }
            figs.push(v);
        }
        let tot = figs.iter().fold(Rat::zero(), |a, b| a.add(b));
        expect.insert(*day, (tot, figs));
    }
    // header: Date, Total, securities sorted
    let mut want_header = vec!["Date".to_string(), "Total".to_string()];
    want_header.extend(secs.iter().cloned());
    if total.header != want_header { return Verdict::Fail(format!("total costs header {:?}, expected {:?}\n{csv}", total.header, want_header)); }
    if total.rows.len() != expect.len() { return Verdict::Fail(format!("total costs shows {} dated rows, the default affiliate's rows settle on {} days\n{csv}", total.rows.len(), expect.len())); }
    for (row, (day, (tot, figs))) in total.rows.iter().zip(expect.iter()) {
        if row[0] != day.to_string() { return Verdict::Fail(format!("total costs row dated {} where {} is expected\n{csv}", row[0], day)); }
        let Some(t) = money(&row[1]) else { return Verdict::Fail(format!("unreadable total {:?}", row)); };
        for (i, f) in figs.iter().enumerate() {
            let Some(v) = money(&row[2 + i]) else { return Verdict::Fail(format!("unreadable figure {:?}", row)); };
            if !v.close(f, &tol) {
                let detail = format!("total costs {day}: {} shows {} but the highest cost base after a transaction settling that day / the cost base after its most recent earlier transaction is {}\nopening={:?}\n{csv}", secs[i], v, f, case.opening);
                // carried-forward figure equals the previous day's maximum instead of its closing value?
                let rows = &per_sec[&secs[i]];
                let has_today = rows.iter().any(|x| x.0 == *day);
                if !has_today { if let Some(pd) = rows.iter().filter(|x| x.0 < *day).map(|x| x.0).last() { let mx = rows.iter().filter(|x| x.0 == pd).fold(Rat::zero(), |m, x| m.max(&x.1)); if v.close(&mx, &tol) || rows.iter().filter(|x| x.0 < *day).any(|x| x.1.close(&v, &tol)) { return known_or_fail("F-17a", detail); } } }
                return Verdict::Fail(detail);
            }
        }
        if !t.close(tot, &tol) { return Verdict::Fail(format!("total costs {day}: total {} but the figures add up to {}\n{csv}", t, tot)); }
    }
    // yearly table: one row per year with a default-affiliate row; a day of that year with the highest total; that day's figures
    let years: BTreeSet<i32> = days.iter().map(|d| d.year()).collect();
    if yearly.rows.len() != years.len() { return Verdict::Fail(format!("yearly max costs shows {} rows for {} years with transactions\n{csv}", yearly.rows.len(), years.len())); }
    for (row, y) in yearly.rows.iter().zip(years.iter()) {
        if row[0] != y.to_string() { return Verdict::Fail(format!("yearly row {:?}, expected year {y}", row)); }
        let Some(day) = crate::gen::parse_date(&row[1]) else { return Verdict::Fail(format!("unreadable day {:?}", row)); };
        if day.year() != *y || !expect.contains_key(&day) { return Verdict::Fail(format!("yearly max costs {y}: shows day {day}, which is not a day of that year with a transaction\n{csv}")); }
        let best = expect.iter().filter(|(d, _)| d.year() == *y).fold(Rat::zero(), |m, (_, v)| m.max(&v.0));
        let (tot, figs) = &expect[&day];
        if !tot.close(&best, &tol) { return Verdict::Fail(format!("yearly max costs {y}: shows {day} (total {tot}) but the year's highest total is {best}\n{csv}")); }
        let Some(t) = money(&row[2]) else { return Verdict::Fail("unreadable".into()); };
        if !t.close(tot, &tol) { return Verdict::Fail(format!("yearly max costs {y}: total {t} differs from that day's total {tot}\n{csv}")); }
        for (i, f) in figs.iter().enumerate() { let Some(v) = money(&row[3 + i]) else { return Verdict::Fail("unreadable".into()); }; if !v.close(f, &tol) { return Verdict::Fail(format!("yearly max costs {y}: {} shows {v}, that day's figure is {f}\n{csv}", secs[i])); } }
        let ties = expect.iter().filter(|(d, v)| d.year() == *y && v.0.close(&best, &tol)).count();
        if ties >= 2 { obs.class("tied-yearly-maximum"); }
    }
    if total.notes.len() != ignored { return Verdict::Fail(format!("{} 'ignored' notes for {} rows of other affiliates\n{csv}", total.notes.len(), ignored)); }
    // the CSV front end lists the ignored transactions too - every one of them, also two alike (two purchases of one security by the same
    // other affiliate settling the same day): each note line occurs under the two costs tables as often as the render model has it
    if ignored > 0 && case.rows.len() % 2 == 0 {
        let w = match crate::observe::run_csv_writer(&files, &opts, true, true) { Ok(t) => t, Err(RunErr::Panic(p)) => return classify_panic(&p, csv), Err(_) => return Verdict::Fail("csv-writer run failed".into()) };
        let mut firsts: BTreeMap<String, usize> = BTreeMap::new();
        let mut rdr = csv::ReaderBuilder::new().has_headers(false).flexible(true).from_reader(w.out.as_bytes());
        for rec in rdr.records().flatten() { for c in rec.iter() { if !c.is_empty() { *firsts.entry(c.to_string()).or_insert(0) += 1; } } }
        let mut want: BTreeMap<String, usize> = BTreeMap::new();
        for n in total.notes.iter().chain(yearly.notes.iter()) { *want.entry(n.clone()).or_insert(0) += 1; }
        for (n, k) in &want { let got = firsts.get(n).copied().unwrap_or(0); if got < *k { return Verdict::Fail(format!("CSV output lists the note {n:?} {got} time(s); the costs tables have it {k} times (one per ignored transaction)\n{csv}")); } }
        if want.values().any(|k| *k >= 4) { obs.class("two-ignored-transactions-with-the-same-note"); }
    }
    if day_max_vs_close { obs.nt("day-max-differs-from-close-then-later-day-without-that-security"); }
    if ignored > 0 { obs.class("rows-of-other-affiliates"); }
    if !case.opening.is_empty() { obs.class("opening-position"); }
    if secs.len() >= 3 { obs.class(">=3-securities"); }
    Verdict::Pass
}

pub fn def() -> PropDef {
    let mut d = PropDef::new("C17", "error-free generated inputs with 2-4 securities, several settlements per day per security (buy then full sale on one day), long gaps, rows of registered and other affiliates, opening positions, rendered with --total-costs --print-full-values. The tables are recomputed independently from the tool's own per-row ledger (default non-registered affiliate): per dated row and security the maximum post-row ACB among that day's rows, else the ACB after its most recent earlier row, else its opening ACB; total = sum; yearly row = a day of the year whose total equals the year's maximum, with that day's figures; one 'ignored' note per row of another affiliate. Non-trivial = a security with two different ACBs on one day (max != close) followed by a later day on which that security has no row. Distinct = distinct case content.");
    d.assumptions = vec!["inputs with a rejected security are skipped (the property covers inputs that process without error)", "any tied day is accepted for the yearly maximum"];
    d.subs.push(Box::new(Sub::<LedgerCase> { name: "costs", cases_quick: 45_000, cases_thorough: 600_000, strategy: Box::new(strategy), to_json: LedgerCase::to_json, from_json: LedgerCase::from_json, check }));
    d
}
