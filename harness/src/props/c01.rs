//! C01 — cost-base ledger follows the average-cost rules exactly (reference-model oracle).
use super::common::*;
use super::PropDef;
use crate::bigrat::Rat;
use crate::cmp::{model_for, normalize_all, CmpWhat};
use crate::engine::{Obs, Sub, Tier, Verdict};
use crate::gen::GenParams;
use crate::model::Act;
use crate::observe::{run_deltas, RunErr};
use proptest::prelude::*;

fn strategy(tier: Tier) -> BoxedStrategy<LedgerCase> {
    let mut p = GenParams::ledger();
    p.max_rows = tier.pick(16, 40);
    // a quarter of the histories trade symbols that are not all upper case (the first of them is the one that may carry an opening position)
    let mut mixed = p.clone();
    mixed.secs = vec!["Brk.b", "xeqt", "FOO"];
    prop_oneof![3 => ledger_strategy(p, 1), 1 => ledger_strategy(mixed, 1)].boxed()
}

pub fn classify(case: &LedgerCase, sec: &str, model: &crate::model::MResult, obs: &mut Obs) {
    let rows = case.sec_rows(sec);
    let mut afs: Vec<&str> = model.rows.iter().map(|r| r.af.as_str()).collect(); afs.sort(); afs.dedup();
    if afs.len() >= 2 { obs.nt("interleaved-affiliates"); }
    let mut seen_split = false;
    let mut prev_partial: std::collections::BTreeMap<&str, bool> = Default::default();
    let mut last_state: std::collections::BTreeMap<&str, (crate::bigrat::Rat, Option<crate::bigrat::Rat>)> = Default::default();
    for m in &model.rows {
        match m.act {
            Act::Split => seen_split = true,
            Act::Roc if seen_split => obs.nt("roc-after-split"),
            Act::Sell => {
                if let Some((b, Some(a))) = last_state.get(m.af.as_str()) { if b.is_pos() && a.div(b).to_decimal_string(28).is_none() { obs.nt("sale-at-nonterminating-cost"); } }
                let partial = m.share_bal.is_pos();
                if partial && prev_partial.get(m.af.as_str()) == Some(&true) { obs.nt("chain-of-partial-sales"); }
                prev_partial.insert(m.af.as_str(), partial);
            }
            _ => { if m.src.is_some() { prev_partial.insert(m.af.as_str(), false); } }
        }
        if !m.sfl.is_zero() { obs.class("superficial-loss"); }
        last_state.insert(m.af.as_str(), (m.share_bal.clone(), m.acb.clone()));
    }
    if rows.iter().any(|r| !r.ccur.is_empty() && r.ccur.to_uppercase() != r.cur.to_uppercase() && !(r.ccur.eq_ignore_ascii_case("CAD") && r.cur.is_empty())) { obs.nt("commission-other-currency"); }
    if rows.iter().any(|r| r.cur == "USD" && r.rate.is_empty()) { obs.class("usd-bank-rate"); }
    if case.opening_for(sec).is_some() { obs.class("opening-position"); }
    if case.tags.iter().any(|t| t == "shuffled") { obs.class("shuffled-file-order"); }
}

pub fn check(case: &LedgerCase, obs: &mut Obs) -> Verdict {
    // a third of the histories are handed over as two or three files (same row order)
    let files = case.files_maybe_split();
    if files.len() > 1 { obs.class("several-input-files"); }
    let res = match run_deltas(&files, &case.run_opts()) {
        Ok(r) => r,
        Err(RunErr::Panic(p)) => return classify_panic(&p, &files[0].1),
        Err(RunErr::Run(e)) => return Verdict::Skip(format!("run-level-error:{}", e.split_whitespace().take(3).collect::<Vec<_>>().join("_"))),
        Err(RunErr::BadInit(e)) => return Verdict::Fail(format!("harness produced a bad opening position: {e}")),
    };
    let mut any = false;
    for sec in case.secs() {
        let model = model_for(&case.sec_rows(&sec), case.opening_for(&sec));
        let Some(tool) = res.get(&sec) else { return Verdict::Fail(format!("security {sec} missing from the result\n{}", files[0].1)); };
        if tool.err.is_some() { obs.class("tool-rejects(skip-sec)"); continue; } // C01 quantifies over accepted histories; acceptance is C04
        if model.err.is_some() { obs.class("model-rejects-tool-accepts(skip-sec)"); continue; }
        let n = normalize_all(&tool.deltas);
        if let Err((e, at)) = crate::cmp::compare_at(&model.rows, &n, false, &CmpWhat::all()) {
            return ledger_mismatch_verdict(&sec, &e, at, &case.sec_rows(&sec), &model, &format!("opening={:?}\n{}{}", case.opening, files[0].1, if std::env::var("ACBVERIF_DUMP").is_ok() { crate::cmp::dump(&model.rows, &n) } else { String::new() }));
        }
        classify(case, &sec, &model, obs);
        any = true;
    }
    // the report is read off the rendered table: for a quarter of the histories the table's own cells are tied to the ledger just checked
    // (cost base after the row, capital gain, and the cost base a sale removes = cost base before / shares before x shares sold)
    if any && case.rows.len() % 4 == 1 {
        let r = match crate::observe::run_render(&files, &case.run_opts(), true, false) { Ok(r) => r, Err(RunErr::Panic(p)) => return classify_panic(&p, &files[0].1), Err(_) => return Verdict::Fail(format!("render run fails where the ledger run succeeds\n{}", files[0].1)) };
        let tol = crate::bigrat::tol9();
        for (sec, tool) in &res {
            if tool.err.is_some() { continue; }
            let Some(t) = r.res.security_tables.get(sec) else { return Verdict::Fail(format!("no table for {sec}\n{}", files[0].1)); };
            if t.rows.len() != tool.deltas.len() { return Verdict::Fail(format!("table {sec} has {} rows, the ledger {} entries\n{}", t.rows.len(), tool.deltas.len(), files[0].1)); }
            // (columns are found by their heading; a table laid out differently is simply not compared)
            let col = |name: &str| t.header.iter().position(|h| h.trim() == name);
            let (Some(c_acb), Some(c_gain), Some(c_new)) = (col("ACB"), col("Cap. Gain"), col("New ACB")) else { obs.class("rendered-table-has-other-headings"); continue; };
            for (i, (row, d)) in t.rows.iter().zip(tool.deltas.iter()).enumerate() {
                let first = |c: usize| row.get(c).map(|x| x.lines().next().unwrap_or("").to_string()).unwrap_or_default();
                let bad = |what: &str, cell: String, want: &Rat| Verdict::Fail(format!("table {sec}, row #{i}: the {what} cell shows {cell:?}, the ledger says {want}\n{}", files[0].1));
                if let Some(acb) = d.post_status.total_acb { let want = Rat::from_decimal(&*acb); if let Some(v) = crate::snapshot::money(&first(c_new)) { if !v.close(&want, &tol) { return bad("New ACB", first(c_new), &want); } } }
                if let Some(g) = d.capital_gain { let want = Rat::from_decimal(&g); if let Some((_, v, _)) = crate::snapshot::money_loose(&first(c_gain)) { if !v.close(&want, &tol) { return bad("Cap. Gain", first(c_gain), &want); } } }
                if let acb::portfolio::TxActionSpecifics::Sell(sp) = &d.tx.action_specifics {
                    if let Some(pre) = d.pre_status.total_acb { let bal = Rat::from_decimal(&*d.pre_status.share_balance); if bal.is_pos() {
                        let want = Rat::from_decimal(&*pre).mul(&Rat::from_decimal(&*sp.shares)).div(&bal);
                        if let Some(v) = crate::snapshot::money(&first(c_acb)) { if !v.close(&want, &tol) { return bad("ACB (cost base removed by the sale)", first(c_acb), &want); } }
                    } }
                }
            }
        }
        obs.class("rendered-cells-tied-to-the-ledger");
    }
    if !any { return Verdict::Skip("no-accepted-security".into()); }
    obs.class(format!("rows:{}", match case.rows.len() { 0..=3 => "1-3", 4..=8 => "4-8", 9..=16 => "9-16", _ => "17+" }));
    Verdict::Pass
}

pub fn def() -> PropDef {
    let mut d = PropDef::new("C01", "random valid histories built by a model-guided interpreter (Buy/Sell/RoC/SfLA/Split; 1-3 securities; up to 5 affiliates incl. registered; CAD/USD/EUR with explicit or Bank-of-Canada rates; separate commission currency; fractional and non-terminating quantities; shuffled row order; a third of the histories cut into two or three input files; opening positions). Non-trivial = a sale made at a non-terminating per-share cost, or >=2 partial sales in a row, or >=2 affiliates interleaved on one security, or a commission in another currency, or a RoC after a split. Distinct = distinct case content (hash of the CSV + opening positions).");
    d.assumptions = vec!["totals stay below 1e13 so that 28-digit decimal arithmetic has headroom under the 1e-9 tolerance", "histories the tool rejects are skipped here (acceptance is checked by C04)", "the reference model in harness/src/model.rs encodes the rules as the property states them"];
    d.subs.push(Box::new(Sub::<LedgerCase> { name: "ledger", cases_quick: 90_000, cases_thorough: 1_500_000, strategy: Box::new(strategy), to_json: LedgerCase::to_json, from_json: LedgerCase::from_json, check }));
    d
}
