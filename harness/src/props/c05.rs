//! C05 — every input ends in a report or a diagnostic, never a panic.
use super::common::*;
use super::PropDef;
use crate::engine::{guard, known_or_fail, Obs, PanicInfo, Stats, Sub, Tier, Verdict};
use crate::gen::{GenParams, COLS};
use acb::app::outfmt::model::AcbWriter;
use acb::portfolio::io::tx_csv::TxCsvParseOptions;
use acb::util::rw::{DescribedReader, WriteHandle};
use json::JsonValue;
use proptest::prelude::*;
use std::path::PathBuf;

// ---------- sub "ledger": plain histories, oracle = no panic (also replays R2/R4/F-05e minimal inputs) ----------
fn ledger_strategy_c05(tier: Tier) -> BoxedStrategy<LedgerCase> {
    let mut p = GenParams::ledger(); p.max_rows = tier.pick(14, 30);
    // a quarter of the inputs are long (21-45 rows, shuffled file order): sorting more than 20 rows runs other code, with other demands on the ordering
    let mut long = p.clone(); long.max_rows = 45;
    prop_oneof![3 => ledger_strategy(p, 1), 1 => ledger_strategy(long, 21)].boxed()
}
fn check_ledger(case: &LedgerCase, obs: &mut Obs) -> Verdict {
    let files = case.files();
    for (full, costs) in [(false, false), (true, true)] {
        match crate::observe::run_text(&files, &case.run_opts(), full, costs) {
            Err(crate::observe::RunErr::Panic(p)) => return panic_verdict(&p, &files[0].1),
            Ok(t) => { if !t.ok && t.err.trim().is_empty() { return Verdict::Fail(format!("failed without any message\n{}", files[0].1)); } }
            Err(crate::observe::RunErr::BadInit(e)) => return Verdict::Fail(e),
            Err(crate::observe::RunErr::Run(_)) => {}
        }
    }
    obs.nt("reaches-bookkeeping");
    Verdict::Pass
}

// ---------- sub "extreme": short histories whose fields sit at the edges of the stated domain ----------
fn extreme_strategy(_t: Tier) -> BoxedStrategy<LedgerCase> {
    use crate::gen::{ymd, HRow};
    use crate::model::Act;
    let num = prop_oneof![3 => Just("999999999999.9999999999"), 2 => Just("999999999999"), 2 => Just("0.0000000001"), 2 => Just("1"), 1 => Just("123456789012.1234567891"), 1 => Just("0"), 1 => Just("3.3333333333"), 1 => Just("100000000000")];
    let row = (0u8..5, num.clone(), num.clone(), num.clone(), prop_oneof![2 => Just(""), 2 => Just("USD"), 1 => Just("EUR")], num.clone(), 0u16..400, prop_oneof![3 => Just(""), 1 => Just("Spouse"), 1 => Just("(R)")], prop_oneof![Just("2-for-1"), Just("999999999999-for-1"), Just("1-for-999999999999"), Just("0.0000000001-for-1"), Just("1.0-for-3.0")]);
    proptest::collection::vec(row, 1..7).prop_map(|rows| {
        let mut out = vec![];
        for (k, sh, px, cm, cur, rate, day, af, split) in rows {
            let d = ymd(2019, 12, 1) + time::Duration::days(day as i64);
            let act = [Act::Buy, Act::Sell, Act::Roc, Act::Sfla, Act::Split][k as usize];
            let mut r = HRow::new("FOO", d, d, act);
            r.af = af.to_string();
            match act {
                Act::Buy | Act::Sell => { r.shares = if sh == "0" { "1".into() } else { sh.to_string() }; r.price = px.to_string(); r.comm = cm.to_string(); r.cur = cur.to_string(); if !cur.is_empty() { r.rate = if rate == "0" { "1".into() } else { rate.to_string() }; } }
                Act::Roc => { r.price = px.to_string(); r.cur = cur.to_string(); if !cur.is_empty() { r.rate = if rate == "0" { "1".into() } else { rate.to_string() }; } }
                Act::Sfla => { r.shares = if sh == "0" { "1".into() } else { sh.to_string() }; r.price = if px == "0" { "1".into() } else { px.to_string() }; }
                Act::Split => { r.split = split.to_string(); if af.is_empty() { r.af = String::new(); } }
            }
            out.push(r);
        }
        LedgerCase { rows: out, opening: vec![], tags: vec![] }
    }).boxed()
}

pub fn panic_verdict(p: &PanicInfo, input: &str) -> Verdict {
    if p.in_harness() { return Verdict::Fail(format!("HARNESS BUG: panic in harness code at {}: {}", p.location, p.message)); }
    for (id, needle) in KNOWN_PANIC_SITES { if p.location.contains(needle.0) && p.message.contains(needle.1) { return known_or_fail(id, format!("panic at {} — {}\n{input}", p.location, first_line(&p.message))); } }
    if p.message.contains("Multiplication overflowed") || p.message.contains("Addition overflowed") || p.message.contains("Subtraction overflowed") { return known_or_fail("F-05c", format!("panic at {} — {}\n{input}", p.location, first_line(&p.message))); }
    Verdict::Fail(format!("panic at {}: {}\n{input}", p.location, first_line(&p.message)))
}

// ---------- sub "damaged": structured-then-damaged CSV x options ----------
#[derive(Clone, Debug)]
pub struct DamagedCase {
    pub files: Vec<(String, Vec<u8>)>,
    pub full: bool, pub costs: bool, pub csv_out: bool,
    pub summarize_before: Option<String>, pub annual: bool,
    pub date_fmt: Option<String>,
    pub symbol_base: Vec<String>,
    pub mutations: Vec<String>,
    pub secs: Vec<String>,
}

fn hex(b: &[u8]) -> String { b.iter().map(|x| format!("{:02x}", x)).collect() }
fn unhex(s: &str) -> Option<Vec<u8>> { (0..s.len()).step_by(2).map(|i| u8::from_str_radix(s.get(i..i + 2)?, 16).ok()).collect() }

impl DamagedCase {
    fn to_json(&self) -> JsonValue {
        json::object! {
            files: self.files.iter().map(|(n, b)| json::object! { name: n.as_str(), text_lossy: String::from_utf8_lossy(b).to_string(), hex: hex(b) }).collect::<Vec<_>>(),
            full: self.full, costs: self.costs, csv_out: self.csv_out, summarize_before: self.summarize_before.clone(), annual: self.annual, date_fmt: self.date_fmt.clone(), symbol_base: self.symbol_base.clone(), mutations: self.mutations.clone(), secs: self.secs.clone(),
        }
    }
    fn from_json(v: &JsonValue) -> Option<DamagedCase> {
        let files: Option<Vec<(String, Vec<u8>)>> = v["files"].members().map(|f| Some((f["name"].as_str()?.to_string(), unhex(f["hex"].as_str()?)?))).collect();
        Some(DamagedCase { files: files?, full: v["full"].as_bool()?, costs: v["costs"].as_bool()?, csv_out: v["csv_out"].as_bool()?, summarize_before: v["summarize_before"].as_str().map(|s| s.to_string()), annual: v["annual"].as_bool()?, date_fmt: v["date_fmt"].as_str().map(|s| s.to_string()), symbol_base: v["symbol_base"].members().filter_map(|x| x.as_str().map(|s| s.to_string())).collect(), mutations: vec![], secs: v["secs"].members().filter_map(|x| x.as_str().map(|s| s.to_string())).collect() })
    }
}

const JUNK: [&str; 26] = ["", "abc", "-5", "1e5", "NaN", "inf", "999999999999.9999999999", "0.0000000001", "0", "1,000", " ", "2020-13-45", "31/12/2020", "--", "1900-01-01", "2100-12-31", "0.00000000001", "-0", "+7", "1.", ".5", "1..2", "0x10", "١٢", "2-for-", "buy buy"];

fn render_grid(grid: &[Vec<String>]) -> String { grid.iter().map(|r| r.iter().map(|c| crate::gen::csv_escape(c)).collect::<Vec<_>>().join(",")).collect::<Vec<_>>().join("\n") + "\n" }

fn damage(base: &LedgerCase, seeds: &[u16], nmut: usize, fmt_ix: usize) -> (Vec<u8>, Vec<String>, Option<String>) {
    let s = |i: usize| seeds[i % seeds.len()] as usize;
    // optional alternative date format, applied consistently to the valid base
    let fmts: [(&str, &str); 4] = [("[year]-[month]-[day]", "Y-M-D"), ("[month]/[day]/[year]", "M/D/Y"), ("[day].[month].[year]", "D.M.Y"), ("[year][month][day]", "YMD")];
    let fmt_date = |d: time::Date, k: &str| -> String { let (y, m, dd) = (d.year(), d.month() as u8, d.day()); match k { "M/D/Y" => format!("{m:02}/{dd:02}/{y:04}"), "D.M.Y" => format!("{dd:02}.{m:02}.{y:04}"), "YMD" => format!("{y:04}{m:02}{dd:02}"), _ => format!("{y:04}-{m:02}-{dd:02}") } };
    let (date_fmt, dk) = if fmt_ix < 4 { (if fmt_ix == 0 { None } else { Some(fmts[fmt_ix].0.to_string()) }, fmts[fmt_ix].1) } else { (Some(["[foo]", "%Y-%m-%d", "", "[year", "[year]-[month]", "[year]-[month]-[day] [hour]"][fmt_ix % 6].to_string()), "Y-M-D") };
    let mut grid: Vec<Vec<String>> = vec![COLS.iter().map(|c| c.to_string()).collect()];
    for r in &base.rows { grid.push(COLS.iter().map(|c| match *c { "trade date" => fmt_date(r.td, dk), "settlement date" => fmt_date(r.sd, dk), _ => crate::gen::cell(r, c) }).collect()); }
    let mut notes = vec![];
    let mut byte_ops: Vec<(usize, usize)> = vec![];
    for m in 0..nmut {
        let kind = s(3 * m) % 17;
        let nrows = grid.len();
        let ncols = grid[0].len().max(1);
        let (ri, ci) = (if nrows > 1 { 1 + s(3 * m + 1) % (nrows - 1) } else { 0 }, s(3 * m + 2) % ncols);
        match kind {
            0 => { for r in grid.iter_mut() { if ci < r.len() { r.remove(ci); } } notes.push("delete-column".into()); }
            1 => { for r in grid.iter_mut() { if ci < r.len() { let c = r[ci].clone(); r.push(c); } } notes.push("duplicate-column".into()); }
            2 => { if ci < grid[0].len() { grid[0][ci] = ["foo", "", "date", "security", "SHARES", "amount / share", "affiliate "][s(3 * m + 1) % 7].to_string(); } notes.push("rename-header".into()); }
            3 => { if nrows > 1 && grid[ri].len() > 1 { let c2 = s(3 * m + 1) % grid[ri].len(); if ci < grid[ri].len() { grid[ri].swap(ci, c2); } } notes.push("swap-cells".into()); }
            4 | 5 | 6 => { if nrows > 1 && ci < grid[ri].len() { grid[ri][ci] = JUNK[s(3 * m + 1) % JUNK.len()].to_string(); } notes.push("junk-cell".into()); }
            7 => { if nrows > 1 && ci < grid[ri].len() { grid[ri][ci] = "x".repeat(1 + s(3 * m + 1) % 3000); } notes.push("long-cell".into()); }
            8 => { if nrows > 1 { let keep = s(3 * m + 1) % (grid[ri].len() + 1); grid[ri].truncate(keep); } notes.push("ragged-short".into()); }
            9 => { if nrows > 1 { grid[ri].push("extra".into()); grid[ri].push("9".into()); } notes.push("ragged-long".into()); }
            10 => { grid.insert(ri.min(grid.len()), vec![]); notes.push("blank-line".into()); }
            11 => { if nrows > 1 { let r = grid[ri].clone(); grid.insert(ri, r); } notes.push("duplicate-row".into()); }
            12 => { grid.truncate(1); notes.push("header-only".into()); }
            16 => {
                // a declared superficial loss on some sale: forced zero ("not superficial"), forced values, plain values, on whatever sale comes next
                if let (Some(ca), Some(cs)) = (grid[0].iter().position(|h| h == "action"), grid[0].iter().position(|h| h == "superficial loss")) {
                    if let Some(row) = (ri..nrows).chain(1..ri).find(|&r| grid[r].get(ca).map(|a| a == "Sell").unwrap_or(false) && cs < grid[r].len()) {
                        grid[row][cs] = ["0!", "-0!", "0.00!", "-3!", "-1.5", "0", "-0.001!", "!"][s(3 * m + 1) % 8].to_string();
                    }
                }
                notes.push("declared-superficial-loss".into());
            }
            _ => { byte_ops.push((kind, s(3 * m + 1))); }
        }
    }
    let mut bytes = render_grid(&grid).into_bytes();
    for (kind, x) in byte_ops {
        let pos = if bytes.is_empty() { 0 } else { (x * 7919) % bytes.len() };
        match kind {
            13 => { bytes.insert(pos, b'"'); notes.push("stray-quote".into()); }
            14 => { bytes.splice(pos..pos, [0xff, 0xfe, 0x80]); notes.push("non-utf8-bytes".into()); }
            _ => { match x % 5 { 0 => { bytes.splice(0..0, [0xef, 0xbb, 0xbf]); notes.push("bom".into()); } 1 => { bytes = String::from_utf8_lossy(&bytes).replace('\n', "\r\n").into_bytes(); notes.push("crlf".into()); } 2 => { bytes.truncate(pos); notes.push("truncated-file".into()); } 3 => { bytes.clear(); notes.push("empty-file".into()); } _ => { bytes.insert(pos, 0); notes.push("nul-byte".into()); } } }
        }
    }
    (bytes, notes, date_fmt)
}

fn damaged_strategy(tier: Tier) -> BoxedStrategy<DamagedCase> {
    let mut p = GenParams::ledger();
    p.max_rows = tier.pick(10, 24);
    p.usd_norate = false;
    // a third of the bases have their rows crowd around year ends (trades late in December that settle in January, ...)
    let mut edge = p.clone();
    edge.year_edge = true;
    (prop_oneof![2 => ledger_strategy(p, 1), 1 => ledger_strategy(edge, 1)], proptest::collection::vec(any::<u16>(), 24), 0usize..=5, prop_oneof![6 => Just(0usize), 3 => 1usize..4, 1 => 4usize..10], (any::<bool>(), any::<bool>(), any::<bool>(), any::<u8>(), any::<bool>()), prop_oneof![6 => Just(vec![]), 2 => Just(vec!["BAR:0.5:0".to_string()]), 1 => Just(vec!["ZZZ:999999999999.9999999999:999999999999.9999999999".to_string()]), 1 => proptest::collection::vec(prop_oneof![Just("FOO:10".to_string()), Just(":1:1".to_string()), Just("FOO:x:1".to_string()), Just("FOO:-1:5".to_string()), Just("BAR:1:1".to_string()), Just("foo:10:100".to_string()), Just("Foo:1:1".to_string()), Just("xyz.to:5:5".to_string()), Just(" bar :2:2".to_string()), Just("FOO:1:-5".to_string()), Just("FOO:1:x".to_string()), Just("FOO:1e3:1".to_string()), Just("FOO::".to_string()), Just("FOO:1:1:1".to_string()), Just("  :1:1".to_string()), Just("FOO:1:-0.0000000001".to_string())], 1..3)])
        .prop_map(|(base, seeds, nmut, fmt_ix, (full, costs, csv_out, summ, annual), sb)| {
            // a quarter of the bases are moved in time so that some sale trades on Dec 31 and settles in January
            let mut base = base;
            if seeds[1] % 4 == 0 { if let Some(r) = base.rows.iter().find(|r| r.act == crate::model::Act::Sell && r.sd > r.td).cloned() { let delta = crate::gen::ymd(r.td.year(), 12, 31) - r.td; for x in base.rows.iter_mut() { x.td = x.td + delta; x.sd = x.sd + delta; } } }
            let (bytes, mutations, date_fmt) = damage(&base, &seeds, nmut, fmt_ix);
            let mut files = vec![("f0.csv".to_string(), bytes)];
            if seeds[0] % 5 == 0 { files.push(("f1.csv".to_string(), crate::gen::to_csv(&base.rows[..base.rows.len().min(2)]).into_bytes())); }
            let mut symbol_base = crate::gen::symbol_base_strings(&base.opening);
            symbol_base.extend(sb);
            let summarize_before = match summ % 4 { 0 => Some(base.rows.get(base.rows.len() / 2).map(|r| r.sd.to_string()).unwrap_or("2020-01-01".into())), 1 => Some("1900-01-01".into()), _ => None };
            DamagedCase { files, full, costs, csv_out, summarize_before, annual, date_fmt, symbol_base, mutations, secs: base.secs() }
        }).boxed()
}

fn scratch() -> PathBuf { let base = if std::path::Path::new("/dev/shm").is_dir() { PathBuf::from("/dev/shm") } else { std::env::temp_dir() }; base.join(format!("acbverif-c05-{}", std::process::id())) }

fn attributes_problem(msg: &str, c: &DamagedCase, paths: &[PathBuf]) -> bool {
    let m = msg.to_lowercase();
    paths.iter().any(|p| msg.contains(&p.display().to_string())) || c.files.iter().any(|f| msg.contains(&f.0)) || m.contains(" row ") || m.contains("row ") || c.secs.iter().any(|s| msg.contains(s.as_str())) || m.contains("error in ") || m.contains("csv headers") || m.contains("symbol") || m.contains("acb format") || m.contains("date-fmt") || m.contains("shares format")
}

fn check_damaged(c: &DamagedCase, obs: &mut Obs) -> Verdict {
    crate::observe::reset_globals(crate::observe::far_today());
    let dir = scratch();
    let _ = std::fs::create_dir_all(&dir);
    let mut paths = vec![];
    for (n, b) in &c.files { let p = dir.join(n); if std::fs::write(&p, b).is_err() { return Verdict::Skip("scratch-write-failed".into()); } paths.push(p); }
    let input = || format!("options: full={} costs={} csv={} summarize_before={:?} annual={} date_fmt={:?} -b {:?}\n--- {}\n{}", c.full, c.costs, c.csv_out, c.summarize_before, c.annual, c.date_fmt, c.symbol_base, c.files[0].0, String::from_utf8_lossy(&c.files[0].1).chars().take(3000).collect::<String>());
    // option layer, as cmd.rs does it
    let init = match guard(|| acb::app::input_parse::parse_initial_status(&c.symbol_base)) { Err(p) => return panic_verdict(&p, &input()), Ok(Err(e)) => { if e.trim().is_empty() { return Verdict::Fail("empty error for a bad opening position".into()); } obs.class("diagnostic:symbol-base"); return Verdict::Pass; } Ok(Ok(i)) => i };
    let date_format = match &c.date_fmt { None => None, Some(f) => match guard(|| acb::util::date::parse_dyn_date_format(f)) { Err(p) => return panic_verdict(&p, &input()), Ok(Err(e)) => { if e.trim().is_empty() { return Verdict::Fail("empty error for a bad date format".into()); } obs.class("diagnostic:date-fmt"); return Verdict::Pass; } Ok(Ok(x)) => Some(x) } };
    let readers = || -> Vec<DescribedReader> { paths.iter().map(|p| DescribedReader::from_file_path(p.clone())).collect() };
    let loader = crate::observe::empty_loader;
    let (eh, ebuf) = WriteHandle::string_buff_write_handle();
    let (oh, obuf) = WriteHandle::string_buff_write_handle();
    let r = guard(|| -> Result<(), ()> {
        if let Some(cut) = &c.summarize_before {
            let cut = crate::gen::parse_date(cut).unwrap();
            let mut o = acb::app::Options::default();
            o.split_annual_summary_gains = c.annual;
            o.csv_parse_options = TxCsvParseOptions { date_format: date_format.clone() };
            match async_std::task::block_on(acb::app::run_acb_app_summary_to_model(cut, readers(), init.clone(), o, loader(), eh.clone())) {
                Ok(d) => { let csvtxs: Vec<acb::portfolio::CsvTx> = d.txs.into_iter().map(|t| t.into()).collect(); let mut b = acb::util::rw::StringBuffer::new(); acb::portfolio::io::tx_csv::write_txs_to_csv(&csvtxs, &mut b).map_err(|_| ())?; Ok(()) }
                Err(e) => { use std::io::Write; let mut w = eh.clone(); if let Some(g) = e.general_error { let _ = writeln!(w, "Error: {g}"); } for (s, m) in e.sec_errors { let _ = writeln!(w, "Error in {s}: {m}"); } Err(()) }
            }
        } else {
            let po = TxCsvParseOptions { date_format: date_format.clone() };
            let mut tw; let mut cw;
            let w: &mut dyn AcbWriter = if c.csv_out { cw = acb::app::outfmt::csv::CsvWriter::new_to_writer(oh.clone()); &mut cw } else { tw = acb::app::outfmt::text::TextWriter::new(oh.clone()); &mut tw };
            async_std::task::block_on(acb::app::run_acb_app_to_writer(w, readers(), init.clone(), &po, c.full, c.costs, loader(), eh.clone())).map(|_| ())
        }
    });
    let err = ebuf.borrow().as_str().to_string();
    let out = obuf.borrow().as_str().to_string();
    let _ = std::fs::remove_dir_all(&dir);
    match r {
        Err(p) => return panic_verdict(&p, &input()),
        Ok(Err(())) => {
            if err.trim().is_empty() { return Verdict::Fail(format!("the run failed without any message\n{}", input())); }
            if !attributes_problem(&err, c, &paths) { return known_or_fail("F-05f", format!("the error message does not attribute the problem to a file, row or security: {:?}\n{}", err.trim(), input())); }
            obs.nt("rejected-after-header-parsing-or-later");
            obs.class("diagnostic:run-level");
        }
        Ok(Ok(())) => {
            if out.contains("[!]") || err.contains("Error") { obs.class("report-with-security-errors"); }
            if !out.is_empty() || c.summarize_before.is_some() { obs.nt("reaches-bookkeeping"); }
            obs.class("report");
        }
    }
    for m in &c.mutations { obs.class(format!("mutation:{m}")); }
    if c.mutations.is_empty() { obs.class("undamaged"); }
    Verdict::Pass
}

// ---------- sub "xlsx": damaged Questrade exports through the converter ----------
#[derive(Clone, Debug)]
pub struct DamagedSheet { pub export: super::c18::Export, pub edits: Vec<(usize, String, String)> }

fn xlsx_strategy(_t: Tier) -> BoxedStrategy<DamagedSheet> {
    let junk = prop_oneof![Just(""), Just("0"), Just("-0"), Just("abc"), Just("1e400"), Just("NaN"), Just("#BOOL"), Just("#ERR"), Just("999999999999.9999999999"), Just("0.0000000001"), Just("2022-13-45"), Just("USD"), Just("CAD"), Just("FXT"), Just("DIV"), Just("buy"), Just("-5"), Just("1,000.50"), Just("  ")];
    (super::c18::export_strategy(), proptest::collection::vec((any::<u16>(), 0usize..14, junk), 0..6)).prop_map(|(export, eds)| {
        let n = export.rows.len().max(1);
        let edits = eds.into_iter().map(|(r, c, v)| (r as usize % n, super::c18::HEADERS[c].to_string(), v.to_string())).collect();
        DamagedSheet { export, edits }
    }).boxed()
}

fn check_xlsx(c: &DamagedSheet, obs: &mut Obs) -> Verdict {
    use office::DataType;
    crate::observe::reset_globals(crate::observe::far_today());
    let mut e = c.export.clone();
    for (r, col, v) in &c.edits { if let Some(a) = e.rows.get_mut(*r) { a.cells.insert(col.clone(), v.clone()); } }
    let mut rg = e.range(&e.layout, &e.numeric_cols);
    // typed damage: booleans and error cells
    for (r, col, v) in &c.edits { if let Some(j) = e.layout.iter().position(|c| c.as_deref() == Some(col.as_str())) { if v == "#BOOL" { rg.set_value(((*r + 1) as u32, j as u32), DataType::Bool(true)); } if v == "#ERR" { rg.set_value(((*r + 1) as u32, j as u32), DataType::Error(office::CellErrorType::Div0)); } } }
    let show = || format!("edits {:?}\n{}", c.edits, e.rows.iter().map(|a| super::c18::HEADERS.iter().map(|h| a.cells.get(*h).cloned().unwrap_or_default()).collect::<Vec<_>>().join(" | ")).collect::<Vec<_>>().join("\n"));
    match guard(|| acb::peripheral::broker::questrade::sheet_to_txs(&rg, None)) {
        Err(p) => {
            if p.message.contains("Division by zero") && p.location.contains("rust_decimal") { return known_or_fail("F-05d", format!("panic in tx-export-convert: {}\n{}", p.sig(), show())); }
            return panic_verdict(&p, &show());
        }
        Ok(Err(er)) => { if er.errors.is_empty() || er.errors.iter().any(|x| x.to_string().trim().is_empty()) { return Verdict::Fail(format!("converter failed without a message\n{}", show())); } obs.nt("rejected-with-row-diagnostics"); }
        Ok(Ok(t)) => { if !t.is_empty() { obs.nt("converted"); } }
    }
    if c.edits.is_empty() { obs.class("undamaged"); }
    Verdict::Pass
}

// ---------- sub "etrade": damaged confirmation texts through etrade-plan-pdf-tx-extract ----------
#[derive(Clone, Debug)]
pub struct DamagedTexts { pub files: Vec<(String, String)> }

fn etrade_strategy(_t: Tier) -> BoxedStrategy<DamagedTexts> {
    (super::c19::scenario_strategy(), proptest::collection::vec((any::<u16>(), any::<u16>(), 0u8..13), 0..6)).prop_map(|(sc, muts)| {
        let mut files = sc.files.clone();
        for (fi, pos, kind) in muts {
            if files.is_empty() { break; }
            let k = fi as usize % files.len();
            let mut lines: Vec<String> = files[k].1.lines().map(|l| l.to_string()).collect();
            if lines.is_empty() { continue; }
            let li = pos as usize % lines.len();
            match kind {
                0 => { lines.remove(li); }
                1 => { let l = lines[li].clone(); lines.insert(li, l); }
                2 => { lines[li] = lines[li].chars().map(|c| if c.is_ascii_digit() { '9' } else { c }).collect(); }
                3 => { lines[li] = lines[li].replace(|c: char| c.is_ascii_digit(), ""); }
                4 => { lines.truncate(li); }
                5 => { lines[li] = lines[li].replace('/', "/13/").replace('-', "-45-"); }
                6 => { lines[li] = format!("{} 999999999999999999999999999999.99", lines[li]); }
                7 => { lines[li] = lines[li].replace('$', ""); }
                8 => { lines[li] = lines[li].replace("SELL", "SOLD SHORT").replace("Sold", "Bought"); }
                9 => { files[k].1 = String::new(); continue; }
                // zero quantities and amounts: "Shares Sold (0.0000)", "$0.00", a trade of 0 shares
                10 => { lines[li] = lines[li].chars().map(|c| if c.is_ascii_digit() { '0' } else { c }).collect(); }
                11 => { if let Some(j) = lines.iter().position(|l| l.contains("Sold") || l.contains("sold")) { lines[j] = lines[j].chars().map(|c| if c.is_ascii_digit() { '0' } else { c }).collect(); } }
                _ => { if let Some(j) = lines.iter().position(|l| l.contains("Shares") || l.contains("SHARES") || l.contains("Quantity")) { lines[j] = lines[j].chars().map(|c| if c.is_ascii_digit() { '0' } else { c }).collect(); } }
            }
            files[k].1 = lines.join("\n") + "\n";
        }
        DamagedTexts { files }
    }).boxed()
}

fn check_etrade(c: &DamagedTexts, obs: &mut Obs) -> Verdict {
    crate::observe::reset_globals(crate::observe::far_today());
    let show = || c.files.iter().map(|(n, t)| format!("--- {n}\n{}", t.chars().take(1500).collect::<String>())).collect::<Vec<_>>().join("\n");
    match super::c19::run_extract(&c.files, "d") {
        Err(p) => return panic_verdict(&p, &show()),
        Ok((false, _, err)) => { if err.trim().is_empty() { return Verdict::Fail(format!("etrade-plan-pdf-tx-extract failed without a message\n{}", show())); } if !(c.files.iter().any(|f| err.contains(&f.0)) || err.contains("Error")) { return Verdict::Fail(format!("error does not name a file: {err}")); } obs.nt("rejected-with-diagnostic"); }
        Ok((true, out, _)) => { if !out.trim().is_empty() { obs.nt("extracted"); } }
    }
    Verdict::Pass
}

/// A sample through the real binary (argument layer, exit status, no 'panicked at').
fn binary_sample(tier: Tier, seed: u64, idx: u64, of: u64, stats: &mut Stats) {
    use proptest::strategy::ValueTree;
    use proptest::test_runner::{Config, RngSeed, TestRunner};
    let total = tier.pick(160u64, 4000);
    let mine = total / of + if idx < total % of { 1 } else { 0 };
    let exe = std::env::current_exe().unwrap().parent().unwrap().join("acb_cli");
    let dir = scratch().with_extension(format!("bin{idx}"));
    let _ = std::fs::create_dir_all(&dir);
    let mut runner = TestRunner::new(Config { rng_seed: RngSeed::Fixed(seed), failure_persistence: None, ..Config::default() });
    let strat = damaged_strategy(tier);
    let mut n = 0u64;
    for _ in 0..mine {
        let Ok(tree) = strat.new_tree(&mut runner) else { continue };
        let c = tree.current();
        let mut cmd = std::process::Command::new(&exe);
        for (nm, b) in &c.files { let p = dir.join(nm); let _ = std::fs::write(&p, b); cmd.arg(p); }
        if c.full { cmd.arg("--print-full-values"); } if c.costs { cmd.arg("--total-costs"); }
        if c.csv_out { cmd.arg("-d").arg(dir.join("out")); }
        if let Some(s) = &c.summarize_before { cmd.arg("--summarize-before").arg(s); if c.annual { cmd.arg("--summarize-annual-gains"); } }
        if let Some(f) = &c.date_fmt { cmd.arg("--date-fmt").arg(f); }
        for b in &c.symbol_base { cmd.arg("-b").arg(b); }
        cmd.env("HOME", &dir);
        let Ok(o) = cmd.output() else { stats.infra_errors.push("cannot run acb_cli".into()); break };
        let err = String::from_utf8_lossy(&o.stderr);
        let signalled = o.status.code().is_none();
        if err.contains("panicked at") || signalled {
            let site = err.lines().find(|l| l.contains("panicked at")).unwrap_or("").to_string();
            let known = if err.contains("Division overflowed") { Some("F-05e") } else if err.contains("overflowed") { Some("F-05c") } else { None }.filter(|id| crate::engine::is_listed(id));
            match known { Some(id) => { *stats.excluded_known.entry(id.to_string()).or_insert(0) += 1; } None => stats.failures.push(crate::engine::Failure { prop: "C05".into(), sub: "damaged".into(), message: format!("acb binary {}: {site}", if signalled { "killed by a signal" } else { "panicked" }), case: c.to_json() }) }
        } else if !o.status.success() && err.trim().is_empty() && String::from_utf8_lossy(&o.stdout).trim().is_empty() {
            stats.failures.push(crate::engine::Failure { prop: "C05".into(), sub: "damaged".into(), message: "acb binary exits non-zero without any message".into(), case: c.to_json() });
        }
        n += 1;
        crate::engine::heartbeat();
        if !stats.failures.is_empty() { break; }
    }
    let _ = std::fs::remove_dir_all(&dir);
    *stats.extra.entry("binary_runs".into()).or_insert(0.into()) = (stats.extra.get("binary_runs").and_then(|v| v.as_u64()).unwrap_or(0) + n).into();
}

pub fn def() -> PropDef {
    let mut d = PropDef::new("C05", "(damaged) a valid generated input plus 0-5 mutations (delete/duplicate/rename column, swap cells, junk cells incl. huge-but-in-range and tiny numbers, exponent notation, wrong date shapes, 3000-char cells, ragged rows, blank/duplicate rows, header only, stray quotes, non-UTF-8 bytes, BOM, CRLF, truncation, NUL, empty file) x options (--print-full-values, --total-costs, CSV writer, --summarize-before (+annual), --date-fmt valid/alternative/junk, 0-3 -b strings valid or malformed), through the library entry points the CLI and the web UI use, and a sample through the real binary; (ledger) plain valid histories. Oracle: returns; no panic (hook + catch_unwind), no abort; on failure a non-empty message that names a file, a row or a security (or the option at fault). Non-trivial = the input reaches bookkeeping, or is rejected later than header parsing. Distinct = distinct case content. The tx-export-convert and etrade-plan-pdf-tx-extract front ends are exercised by the C18/C19 generators with the same panic oracle (sub-checks 'xlsx', 'etrade').");
    d.assumptions = vec!["'never loops' is only observed through the 240 s watchdog (exit 2 = inconclusive, never a violation)", "numeric fields stay below 1e12 with <= 10 decimals and years 1900-2100 (the property's domain); products of three near-maximal fields overflow Decimal and are recorded as finding F-05c"];
    d.abort_is_violation = true;
    d.subs.push(Box::new(Sub::<LedgerCase> { name: "ledger", cases_quick: 6_000, cases_thorough: 300_000, strategy: Box::new(ledger_strategy_c05), to_json: LedgerCase::to_json, from_json: LedgerCase::from_json, check: check_ledger }));
    d.subs.push(Box::new(Sub::<LedgerCase> { name: "extreme", cases_quick: 6_000, cases_thorough: 300_000, strategy: Box::new(extreme_strategy), to_json: LedgerCase::to_json, from_json: LedgerCase::from_json, check: check_ledger }));
    d.subs.push(Box::new(Sub::<DamagedCase> { name: "damaged", cases_quick: 30_000, cases_thorough: 1_500_000, strategy: Box::new(damaged_strategy), to_json: DamagedCase::to_json, from_json: DamagedCase::from_json, check: check_damaged }));
    d.subs.push(Box::new(Sub::<DamagedSheet> { name: "xlsx", cases_quick: 12_000, cases_thorough: 500_000, strategy: Box::new(xlsx_strategy), to_json: |c| { let mut j = c.export.to_json(); j["edits"] = JsonValue::Array(c.edits.iter().map(|(r, col, v)| json::object! { row: *r, col: col.as_str(), value: v.as_str() }).collect()); j }, from_json: |v| Some(DamagedSheet { export: super::c18::Export::from_json(v)?, edits: v["edits"].members().filter_map(|e| Some((e["row"].as_usize()?, e["col"].as_str()?.to_string(), e["value"].as_str()?.to_string()))).collect() }), check: check_xlsx }));
    d.subs.push(Box::new(Sub::<DamagedTexts> { name: "etrade", cases_quick: 4_000, cases_thorough: 200_000, strategy: Box::new(etrade_strategy), to_json: |c| json::object! { files: crate::gen::files_json(&c.files) }, from_json: |v| Some(DamagedTexts { files: crate::gen::files_from_json(&v["files"])? }), check: check_etrade }));
    d.extra = Some(binary_sample);
    d
}
