//! C04 — balances never negative; rejected iff impossible, visibly, in every output mode.
use super::common::*;
use super::PropDef;
use crate::bigrat::{tol9, Rat};
use crate::cmp::{compare, model_for, normalize_all, CmpWhat, NRow};
use crate::engine::{known_or_fail, Obs, Sub, Tier, Verdict};
use crate::gen::{intent_strategy, GenParams, HRow, Intent};
use crate::model::{affiliate_id, Act, Cause, MResult};
use crate::observe::{run_csv_writer, run_deltas, run_render, run_text, RunErr};
use json::JsonValue;
use proptest::prelude::*;
use std::collections::BTreeMap;

fn params(tier: Tier) -> GenParams { let mut p = GenParams::ledger(); p.max_rows = tier.pick(14, 30); p }

/// Invariants of oracle (1) on every row the tool shows.
pub fn row_invariants(rows: &[NRow]) -> Result<(), String> {
    let mut latest: BTreeMap<String, Rat> = BTreeMap::new();
    let tol = tol9();
    for (k, r) in rows.iter().enumerate() {
        if r.share_bal.is_neg() || r.all_bal.is_neg() { return Err(format!("row #{k}: negative share balance")); }
        if let Some(a) = &r.acb { if a.is_neg() { return Err(format!("row #{k}: negative cost base")); } }
        let registered = r.af.ends_with("(R)");
        if registered && (r.acb.is_some() || r.gain.is_some()) { return Err(format!("row #{k}: registered affiliate {} shows a cost base or a gain", r.af)); }
        if !registered && r.acb.is_none() { return Err(format!("row #{k}: non-registered affiliate {} without cost base", r.af)); }
        latest.insert(r.af.clone(), r.share_bal.clone());
        let mut sum = Rat::zero();
        for v in latest.values() { sum = sum.add(v); }
        if !sum.close(&r.all_bal, &tol) { return Err(format!("row #{k} ({:?} by {} settling {}): all-affiliate balance {} but the affiliates' latest balances sum to {}", r.act, r.af, r.sd, r.all_bal, sum)); }
    }
    Ok(())
}

/// Opening position counts as the default affiliate's first balance for the sum invariant.
fn with_opening(rows: &[NRow], opening: &Option<(Rat, Rat)>) -> Result<(), String> {
    match opening {
        Some((s, _)) if s.is_pos() => {
            // prepend a pseudo row so the invariant sees the opening shares
            let mut v = vec![];
            if let Some(first) = rows.first() {
                let mut p = first.clone(); p.af = "default".into(); p.share_bal = s.clone(); p.all_bal = s.clone(); p.acb = Some(Rat::zero()); p.gain = None; v.push(p);
            }
            v.extend(rows.iter().cloned());
            row_invariants(&v)
        }
        _ => row_invariants(rows),
    }
}

/// Root-cause classifiers for a rejection of a history the exact model accepts.
/// R5: balances are kept as rounded 28-digit decimals, so after a split whose factor (or its
/// reciprocal) does not terminate, a holding that is exactly N in rational arithmetic is N -/+ 1e-28 in
/// the tool; selling exactly N, a whole-number reverse split of it, or a return of capital that uses up
/// exactly the cost base is then refused.  R1b: the same residue created by the 30-day look-ahead's
/// own restatement of later share counts across a split.
pub fn residue_class(rows: &[HRow], model: &MResult, msg: &str) -> Option<&'static str> {
    let risky = rows.iter().any(super::common::risky_split);
    let eps = Rat::ratio(1, 1_000_000_000);
    let num_after = |after: &str| -> Option<Rat> { let i = msg.find(after)? + after.len(); let rest = &msg[i..]; let end = rest.find(|c: char| !(c.is_ascii_digit() || c == '.')).unwrap_or(rest.len()); Rat::parse(rest[..end].trim_end_matches('.')) };
    let empties_a_holding = model.rows.iter().any(|m| m.act == Act::Sell && (m.share_bal.lt(&eps) || m.all_bal.lt(&eps)));
    if msg.contains("Invalid RoC tx") && msg.contains("exceeds the current ACB") {
        // the cost base itself is a rounded decimal (ACB after a sale = shares left x rounded per-share ACB)
        let x = num_after("RoC (")?;
        let y = num_after("current ACB (")?;
        return if x.gt(&y) && x.sub(&y).lt(&eps) { Some("R5") } else { None };
    }
    if !risky { return None; }
    // R5 is about balances that cannot be held exactly: some balance of the exact history (after a split with a non-terminating factor)
    // has no 28-digit decimal representation, so the tool's copy of it is rounded and a later exact multiple of it is off by 1e-28.
    // Where every exact balance is representable (9 shares through a 1-for-3), the tool has to be exact: not R5.
    let unrepresentable_balance = model.rows.iter().any(|m| m.share_bal.to_decimal_string(28).is_none() || m.all_bal.to_decimal_string(28).is_none());
    if (msg.contains("is more than the current") || msg.contains("results in non-integer share balance of ")) && !unrepresentable_balance { return None; }
    if msg.contains("is more than the current") {
        // "Sell order on D of S shares of X is more than the current holdings (H)"
        let h = num_after("holdings (").or_else(|| num_after("affiliates ("))?;
        let sold = num_after(" of ")?;
        return if sold.sub(&h).is_pos() && sold.sub(&h).lt(&eps) { Some("R5") } else { None };
    }
    if msg.contains("results in non-integer share balance of ") {
        let v = num_after("non-integer share balance of ")?;
        let nearest = v.add(&Rat::ratio(1, 2)).floor_dp(0);
        return if v.sub(&nearest).abs().lt(&eps) { Some("R5") } else { None };
    }
    if msg.contains("went below zero in 30-day period after sale") || msg.contains("is less than sold shares") {
        if empties_a_holding { return Some("R1b"); }
        // a sale whose gain is exactly zero in rationals (cost per share x shares = proceeds) is a loss of ~1e-26 for the tool once the
        // balance carries the rounding of a non-terminating split factor (R5): the tool then runs a look-ahead the history does not call for
        let zero_gain_sale = model.rows.iter().any(|m| m.act == Act::Sell && !m.registered && m.gain.as_ref().map(|g| g.is_zero()).unwrap_or(false) && m.raw_gain.is_none());
        return if zero_gain_sale { Some("R5") } else { None };
    }
    None
}
pub fn is_chain_residue(rows: &[HRow], model: &MResult, msg: &str) -> bool { residue_class(rows, model, msg).is_some() }

/// Root cause of F-04d really present: some security has a split for everyone and a per-affiliate split whose trade dates are
/// at most one day apart (the refusal's own condition).  The message alone is not enough: a refusal with this text on a
/// history without such a pair is a different defect.
pub fn split_proximity_present(rows: &[HRow]) -> bool {
    rows.iter().any(|g| g.is_global_split() && rows.iter().any(|p| p.act == Act::Split && !p.is_global_split() && p.sec == g.sec && (p.td - g.td).whole_days().abs() <= 1))
}

pub fn spurious_rejection_verdict(sec: &str, msg: &str, csv: &str, rows: &[HRow], model: &MResult) -> Verdict {
    if msg.contains("Found non-global split") && msg.contains("near global split") && split_proximity_present(rows) { return known_or_fail("F-04d", format!("history of {sec} contains none of the listed causes but is refused: {msg}\n{csv}")); }
    if let Some(id) = residue_class(rows, model, msg) { return known_or_fail(id, format!("valid history of {sec} rejected because a quantity that is exact in rational arithmetic carries ~1e-28 of rounding residue after a split with a non-terminating factor: {msg}\n{csv}")); }
    Verdict::Fail(format!("history of {sec} contains none of the listed causes but was rejected: {msg}\n{csv}"))
}

pub fn check_accept(case: &LedgerCase, obs: &mut Obs) -> Verdict {
    // a third of the histories are handed over as two or three files (same row order)
    let files = case.files_maybe_split();
    let csv_joined: String = if files.len() == 1 { files[0].1.clone() } else { files.iter().map(|(n, t)| format!("--- {n}\n{t}")).collect() };
    let csv = &csv_joined;
    let res = match run_deltas(&files, &case.run_opts()) {
        Ok(r) => r,
        Err(RunErr::Panic(p)) => return classify_panic(&p, csv),
        Err(RunErr::Run(e)) => {
            if e.contains("Found non-global split") && split_proximity_present(&case.rows) { return known_or_fail("F-04d", format!("whole run refused: {e}\n{csv}")); }
            return Verdict::Fail(format!("generated rows all parse but the run failed as a whole: {e}\n{csv}"));
        }
        Err(RunErr::BadInit(e)) => return Verdict::Fail(format!("harness produced a bad opening position: {e}")),
    };
    for sec in case.secs() {
        let model = model_for(&case.sec_rows(&sec), case.opening_for(&sec));
        let Some(tool) = res.get(&sec) else { return Verdict::Fail(format!("security {sec} missing from the result\n{csv}")); };
        let n = normalize_all(&tool.deltas);
        if let Err(e) = with_opening(&n, &case.opening_for(&sec)) { return Verdict::Fail(format!("{sec}: {e}\n{csv}")); }
        match (&model.err, &tool.err) {
            (None, None) => {
                if model.rows.iter().any(|m| m.act == Act::Split && m.share_bal.is_pos()) { obs.class("accepted-with-split"); }
                let mut split_seen: BTreeMap<&str, bool> = BTreeMap::new();
                for m in &model.rows { if m.act == Act::Split { split_seen.insert(&m.af, true); } if m.act == Act::Sell && split_seen.get(m.af.as_str()) == Some(&true) && m.share_bal.lt(&Rat::ratio(1, 1_000_000)) { obs.nt("sale-of-entire-post-split-holding"); } }
                obs.class("accepted");
            }
            (None, Some(msg)) => return spurious_rejection_verdict(&sec, msg, &format!("opening={:?}\n{csv}", case.opening), &case.sec_rows(&sec), &model),
            (Some(me), None) => return Verdict::Fail(format!("history of {sec} contains a listed cause ({:?} at input row {}) but was accepted\n{csv}", me.cause, me.src)),
            (Some(_), Some(_)) => { obs.class("rejected-by-both"); }
        }
    }
    Verdict::Pass
}

// ---------------------------------------------------------------------------------------------
#[derive(Clone, Debug)]
pub struct RejectCase { pub ledger: LedgerCase, pub sec: String, pub cause: String, pub planted_ix: usize }

impl RejectCase {
    fn to_json(&self) -> JsonValue { let mut j = self.ledger.to_json(); j["sec"] = self.sec.as_str().into(); j["cause"] = self.cause.as_str().into(); j["planted_ix"] = self.planted_ix.into(); j }
    fn from_json(v: &JsonValue) -> Option<RejectCase> { Some(RejectCase { ledger: LedgerCase::from_json(v)?, sec: v["sec"].as_str()?.to_string(), cause: v["cause"].as_str().unwrap_or("").to_string(), planted_ix: v["planted_ix"].as_usize()? }) }
}

fn ceil10(r: &Rat) -> Rat { let f = r.floor_dp(10); if &f == r { f } else { f.add(&Rat::parse("0.0000000001").unwrap()) } }
fn s10(r: &Rat) -> String { r.floor_dp(10).to_decimal_string(10).unwrap() }

/// Insert one row carrying exactly one listed cause into a valid history.
pub fn plant(base: &LedgerCase, it: &Intent) -> Option<RejectCase> {
    let secs = base.secs();
    if secs.is_empty() { return None; }
    let sec = crate::gen::pick(it.sec, &secs);
    // chronological order of this security's rows (file index)
    let mut idx: Vec<usize> = base.rows.iter().enumerate().filter(|(_, r)| r.sec == sec).map(|(i, _)| i).collect();
    idx.sort_by_key(|&i| (base.rows[i].sd, i));
    // insert after chronological row k-1; k = 0 puts the planted row before every row of the security (same day as its first row, earlier in the file)
    let k = (it.date_off as usize * (idx.len() + 1)) >> 16;
    let anchor_file_ix = if k == 0 { idx[0] } else { idx[k - 1] };
    let anchor = base.rows[anchor_file_ix].clone();
    // state after the chronological prefix
    let prefix: Vec<HRow> = idx[..k].iter().map(|&i| base.rows[i].clone()).collect();
    let m = model_for(&prefix, base.opening_for(&sec));
    if m.err.is_some() { return None; }
    let mut state: BTreeMap<String, (Rat, Option<Rat>)> = BTreeMap::new();
    if let Some((s, c)) = base.opening_for(&sec) { state.insert("default".into(), (s, Some(c))); }
    for r in &m.rows { state.insert(r.af.clone(), (r.share_bal.clone(), r.acb.clone())); }
    // spelled name per id, from the rows of the whole case
    let mut spelled: BTreeMap<String, String> = BTreeMap::new();
    for r in &base.rows { if !r.is_global_split() { spelled.entry(affiliate_id(&r.af).0).or_insert(if r.af.trim().is_empty() { "Default".to_string() } else { r.af.clone() }); } }
    let name_of = |id: &str| spelled.get(id).cloned().unwrap_or_else(|| if id == "default" { "Default".into() } else { id.to_string() });
    let nonreg: Vec<(String, Rat, Rat)> = state.iter().filter(|(_, v)| v.1.is_some()).map(|(k, v)| (k.clone(), v.0.clone(), v.1.clone().unwrap())).collect();
    let holders: Vec<(String, Rat)> = state.iter().map(|(k, v)| (k.clone(), v.0.clone())).collect();
    let mut row = HRow::new(&sec, anchor.sd, anchor.sd, Act::Sell);
    let tiny = Rat::parse("0.0000000001").unwrap();
    let cause_ix = (it.kind as usize * 9) >> 16;
    let mut cause = "";
    match cause_ix {
        0 | 1 | 2 => {
            let (id, bal) = if holders.is_empty() { ("default".to_string(), Rat::zero()) } else { crate::gen::pick(it.af, &holders) };
            row.af = name_of(&id);
            let total: Rat = holders.iter().fold(Rat::zero(), |a, b| a.add(&b.1));
            let q = match cause_ix {
                0 => { cause = "oversale-by-epsilon"; bal.floor_dp(10).add(&tiny) }
                1 => { cause = "oversale-by-a-lot"; bal.mul(&Rat::from_i64(2)).add(&Rat::one()).floor_dp(4) }
                _ => { if total.sub(&bal).gt(&tiny) { cause = "oversale-covered-by-other-affiliates"; bal.add(&total.sub(&bal).div(&Rat::from_i64(2))).floor_dp(10).add(&tiny) } else { cause = "oversale-by-epsilon"; bal.floor_dp(10).add(&tiny) } }
            };
            row.shares = s10(&q);
            row.price = "10".into();
        }
        3 => {
            let c: Vec<&(String, Rat, Rat)> = nonreg.iter().filter(|x| x.1.is_pos()).collect();
            if c.is_empty() { return None; }
            let (id, bal, acb) = crate::gen::pick(it.af, &c).clone();
            row.act = Act::Roc; row.af = name_of(&id);
            let per = ceil10(&acb.div(&bal)).add(&if it.flag % 2 == 0 { tiny.clone() } else { Rat::ratio(1, 100) });
            row.price = s10(&per);
            cause = "roc-exceeds-acb";
        }
        4 | 5 => {
            let regs: Vec<String> = state.keys().filter(|k| k.ends_with("(R)")).cloned().collect();
            row.af = if regs.is_empty() { "(R)".into() } else { name_of(&crate::gen::pick(it.af, &regs)) };
            if cause_ix == 4 { row.act = Act::Roc; row.price = "0.01".into(); cause = "roc-on-registered"; } else { row.act = Act::Sfla; row.shares = "1".into(); row.price = "1.00".into(); cause = "sfla-on-registered"; }
        }
        6 => {
            let c: Vec<&(String, Rat)> = holders.iter().filter(|x| x.1.is_pos()).collect();
            if c.is_empty() { return None; }
            let (id, bal) = crate::gen::pick(it.af, &c).clone();
            let b = [2i64, 3, 7, 10, 4].iter().copied().find(|b| !bal.div(&Rat::from_i64(*b)).is_integer())?;
            row.act = Act::Split; row.split = format!("1-for-{b}"); row.td = row.sd;
            // same kind as any split nearby (the tool refuses mixed kinds within a day of each other)
            let near_global = base.rows.iter().any(|r| r.sec == sec && r.act == Act::Split && r.is_global_split() && (r.td - row.td).whole_days().abs() <= 3);
            let near_per = base.rows.iter().any(|r| r.sec == sec && r.act == Act::Split && !r.is_global_split() && (r.td - row.td).whole_days().abs() <= 3);
            if near_global && near_per { return None; }
            row.af = if near_global { String::new() } else { name_of(&id) };
            cause = "fractional-whole-number-reverse-split";
        }
        _ => {
            let c: Vec<&(String, Rat, Rat)> = nonreg.iter().filter(|x| crate::gen::sellable(&x.1).is_pos()).collect();
            if c.is_empty() { return None; }
            let (id, bal, acb) = crate::gen::pick(it.af, &c).clone();
            row.af = name_of(&id);
            let q = if it.flag % 2 == 0 { crate::gen::sellable(&bal) } else { crate::gen::no_dust(&bal, bal.div(&Rat::from_i64(2)).floor_dp(4).max(&tiny).min(&crate::gen::sellable(&bal)), &crate::gen::sellable(&bal)) };
            row.shares = s10(&q);
            let per = acb.div(&bal);
            if cause_ix == 7 {
                row.price = s10(&per.mul(&Rat::from_i64(2)).add(&Rat::one()));
                row.sfl = crate::gen::pick(it.sfl, &["-1.00", "0", "-0.01", "-1.00!"]).to_string();
                cause = "declared-sfl-on-a-sale-without-loss";
            } else {
                row.price = s10(&per.div(&Rat::from_i64(2)));
                if !per.is_pos() { return None; }
                row.sfl = "?".into(); // filled in below once the computed value is known
                cause = "declared-sfl-contradicts-computed";
            }
        }
    }
    let mut rows = base.rows.clone();
    let planted_ix = if k == 0 { anchor_file_ix } else { anchor_file_ix + 1 };
    rows.insert(planted_ix, row);
    if rows[planted_ix].sfl == "?" {
        rows[planted_ix].sfl.clear();
        let sec_rows: Vec<HRow> = rows.iter().filter(|r| r.sec == sec).cloned().collect();
        let pos_in_sec = rows[..planted_ix].iter().filter(|r| r.sec == sec).count();
        let m = model_for(&sec_rows, base.opening_for(&sec));
        let computed = m.rows.iter().find(|d| d.src == Some(pos_in_sec)).map(|d| d.computed_sfl.clone())?;
        let off = crate::gen::pick(it.sfl, &["-0.0011", "-0.002", "-0.01", "-5", "0.0011", "0.01", "=0", "=0.00"]);
        // "=0": the row declares that nothing is superficial although something is
        let v = if off.starts_with('=') { Rat::zero() } else { computed.add(&Rat::parse(off).unwrap()) };
        let v = if v.is_pos() { computed.sub(&Rat::parse(off).unwrap()) } else { v };
        // exact decimal needed: round computed to 10 dp first
        let v10 = v.floor_dp(10);
        if computed.sub(&v10).abs().le(&Rat::ratio(1, 1000)) { return None; }
        rows[planted_ix].sfl = if off.starts_with('=') { off[1..].to_string() } else { v10.to_decimal_string(10).unwrap() };
    }
    Some(RejectCase { ledger: LedgerCase { rows, opening: base.opening.clone(), tags: base.tags.clone() }, sec, cause: cause.to_string(), planted_ix })
}

fn reject_strategy(tier: Tier) -> BoxedStrategy<RejectCase> {
    let p = params(tier);
    (ledger_strategy(p, 1), intent_strategy()).prop_filter_map("nothing to plant", |(base, it)| plant(&base, &it)).boxed()
}

pub fn money(s: &str) -> Option<Rat> {
    let t = s.trim().replace('$', "").replace(',', "");
    let t = t.trim_start_matches('+');
    Rat::parse(t)
}

pub fn check_reject(c: &RejectCase, obs: &mut Obs) -> Verdict {
    let case = &c.ledger;
    // a third of the histories are handed over as two or three files (same row order)
    let files = case.files_maybe_split();
    let csv_joined: String = if files.len() == 1 { files[0].1.clone() } else { files.iter().map(|(n, t)| format!("--- {n}\n{t}")).collect() };
    let csv = &csv_joined;
    let sec = &c.sec;
    let sec_rows = case.sec_rows(sec);
    let model: MResult = model_for(&sec_rows, case.opening_for(sec));
    let Some(me) = &model.err else { return Verdict::Skip("planted-cause-did-not-make-the-model-reject".into()); };
    let offending = &sec_rows[me.src];
    // (2) reject <=> model
    let res = match run_deltas(&files, &case.run_opts()) {
        Ok(r) => r,
        Err(RunErr::Panic(p)) => return classify_panic(&p, csv),
        Err(RunErr::Run(e)) => {
            if e.contains("Found non-global split") && split_proximity_present(&c.ledger.rows) { return known_or_fail("F-04d", format!("whole run refused: {e}\n{csv}")); }
            return Verdict::Fail(format!("rows all parse but the run failed as a whole: {e}\n{csv}"));
        }
        Err(RunErr::BadInit(e)) => return Verdict::Fail(format!("bad opening position from the harness: {e}")),
    };
    let Some(tool) = res.get(sec) else { return Verdict::Fail(format!("security {sec} missing\n{csv}")); };
    let Some(msg) = &tool.err else { return Verdict::Fail(format!("history of {sec} contains a listed cause ({:?}, planted: {}) but was accepted\n{csv}", me.cause, c.cause)); };
    // the tool may stop earlier than the planted row for a recorded rounding-residue reason
    let base_rows: Vec<HRow> = case.rows.iter().enumerate().filter(|(i, r)| *i != c.planted_ix && &r.sec == sec).map(|(_, r)| r.clone()).collect();
    let mut base_model = model_for(&base_rows, case.opening_for(sec));
    // a planted sale with a contradicting declared amount is itself a sale the look-ahead of an earlier loss sale sees: whether it
    // empties a holding exactly (the R1b signature) is read off the history with the declaration taken out
    let probe2: Vec<crate::model::MDelta>;
    // (whatever the model's first cause is: a planted declared sale that empties the holding may be followed by an over-sale the model
    // reports instead; the rows up to the model's stopping point are what the look-ahead of an earlier loss sale gets to see)
    {
        let undeclared: Vec<HRow> = case.rows.iter().enumerate().filter(|(_, r)| &r.sec == sec).map(|(i, r)| { let mut r = r.clone(); if i == c.planted_ix { r.sfl.clear(); } r }).collect();
        let m2 = model_for(&undeclared, case.opening_for(sec));
        if matches!(me.cause, Cause::SflMismatch | Cause::SflOnNonLoss) { base_model = MResult { rows: m2.rows.clone(), err: None }; }
        probe2 = m2.rows;
    }
    let residue_any = |msg: &str| -> Option<&'static str> { residue_class(&sec_rows, &MResult { rows: base_model.rows.clone(), err: None }, msg).or_else(|| residue_class(&sec_rows, &MResult { rows: probe2.clone(), err: None }, msg)) };
    if let Some(id) = residue_any(msg) {
        let planted_msg = match me.cause { Cause::OverSale | Cause::OverSaleSeenFromWindow { .. } => msg.contains(&offending.td.to_string()) && (msg.contains(&format!(" of {} shares", offending.shares)) || msg.contains("30-day period")), Cause::RocExceedsAcb => msg.contains("Invalid RoC") && msg.contains(&offending.td.to_string()), Cause::FractionalReverseSplit => msg.contains("non-integer") && msg.contains(&offending.td.to_string()), _ => false };
        if !planted_msg { return known_or_fail(id, format!("{sec} is rejected before the planted row for a rounding-residue reason: {msg}\n{csv}")); }
    }
    // a loss below the comparison tolerance (say 7.5e-11 from a 1e-10 commission) is rounded away by the tool ("effective cent") but
    // not by the exact model; which later sale then counts as a loss, and so where a look-ahead starts, is not decidable at 1e-9
    let eps9 = tol9();
    if model.rows.iter().any(|m| m.raw_gain.as_ref().map(|g| !g.is_zero() && g.abs().lt(&eps9)).unwrap_or(false)) { return Verdict::Skip("loss-below-comparison-tolerance".into()); }
    // (3a) message identifies the transaction: carries the offending row's trade date
    let date = offending.td.to_string();
    if !msg.contains(&date) && matches!(me.cause, Cause::OverSaleSeenFromWindow { .. }) && msg.contains("30-day period after sale") && sec_rows.iter().any(risky_split) {
        // R1b again: the look-ahead's running count carries ~1e-27 of residue across a split with a non-terminating factor, so it already
        // "goes below zero" at an earlier sale of the window that brings a balance to exactly zero, and names that sale's date instead
        let mut idx: Vec<usize> = (0..sec_rows.len()).collect(); idx.sort_by_key(|&i| (sec_rows[i].sd, i));
        let mut bal: BTreeMap<String, Rat> = BTreeMap::new();
        if let Some((sh, _)) = case.opening_for(sec) { bal.insert("default".into(), sh); }
        let mut exact_zero_dates: Vec<String> = vec![];
        for &i in &idx {
            let r = &sec_rows[i]; let m = r.to_mrow_lenient(); let id = affiliate_id(&r.af).0;
            match r.act {
                Act::Buy => { let e = bal.entry(id).or_insert(Rat::zero()); *e = e.add(&m.shares); }
                Act::Sell => { let e = bal.entry(id).or_insert(Rat::zero()); *e = e.sub(&m.shares); let tot = bal.values().fold(Rat::zero(), |a, b| a.add(b)); if bal.values().any(|b| b.is_zero()) || tot.is_zero() { exact_zero_dates.push(r.td.to_string()); } }
                Act::Split => { let f = m.split.0.div(&m.split.1); if r.is_global_split() { for e in bal.values_mut() { *e = e.mul(&f); } } else { let e = bal.entry(id).or_insert(Rat::zero()); *e = e.mul(&f); } }
                _ => {}
            }
        }
        if exact_zero_dates.iter().any(|d| msg.contains(d.as_str())) { return known_or_fail("R1b", format!("{sec}: the over-sale is reported at an earlier sale that empties a holding exactly (look-ahead residue): {msg}\n{csv}")); }
    }
    if !msg.contains(&date) { return Verdict::Fail(format!("rejection message does not identify the offending transaction (trade date {date}): {msg}\n{csv}")); }
    // (3b) rows shown are a correct prefix ending before the offending transaction
    let mut n = normalize_all(&tool.deltas);
    let mut mrows = model.rows.clone();
    if me.cause == Cause::FractionalReverseSplit {
        while n.last().map(|r| r.act == Act::Split && r.sd == offending.sd).unwrap_or(false) { n.pop(); }
        while mrows.last().map(|r| r.act == Act::Split && r.sd == offending.sd).unwrap_or(false) { mrows.pop(); }
    }
    if let Err(e) = with_opening(&n, &case.opening_for(sec)) { return Verdict::Fail(format!("{sec}: {e}\n{csv}")); }
    match compare(&mrows, &n, true, &CmpWhat::all()) {
        Ok(st) => { let want = mrows.iter().filter(|m| m.src.is_some()).count(); if st.user_rows < want { if let Some(id) = residue_any(msg) { return known_or_fail(id, format!("{sec} is rejected before the planted row for a rounding-residue reason: {msg}\n{csv}")); } } if st.user_rows != want { return Verdict::Fail(format!("{sec}: rows shown ({} input rows) are not the ledger prefix before the offending transaction ({} input rows)\nmessage: {msg}\n{csv}", st.user_rows, want)); } }
        Err(e) => {
            if let Err((_, at)) = crate::cmp::compare_at(&mrows, &n, true, &CmpWhat::all()) { if let Some(id) = zero_residue_class(&sec_rows, &MResult { rows: mrows.clone(), err: None }, at) { return known_or_fail(id, format!("{sec}: prefix shown differs for a recorded rounding-residue reason: {e}\n{csv}")); } }
            return Verdict::Fail(format!("{sec}: rows shown for the rejected history are not a correct prefix: {e}\nmessage: {msg}\n{csv}{}", if std::env::var("ACBVERIF_DUMP").is_ok() { crate::cmp::dump(&mrows, &n) } else { String::new() }));
        }
    }
    // other securities must be unaffected in their accept/reject outcome
    // (4) every output mode + (3c) totals exclude the security
    let r = match run_render(&files, &case.run_opts(), true, false) { Ok(r) => r, Err(RunErr::Panic(p)) => return classify_panic(&p, csv), Err(_) => return Verdict::Fail(format!("render model failed where the delta run succeeded\n{csv}")) };
    let Some(table) = r.res.security_tables.get(sec) else { return Verdict::Fail(format!("render model lacks table for {sec}")); };
    if !table.errors.iter().any(|e| e == msg) { return Verdict::Fail(format!("render model (web UI) does not carry the rejection message for {sec}: errors={:?}\n{csv}", table.errors)); }
    // aggregate recomputed from the error-free securities
    let mut by_year: BTreeMap<i32, Rat> = BTreeMap::new();
    let mut total = Rat::zero();
    for (s, sr) in &res { if sr.err.is_none() { for d in &sr.deltas { if let Some(g) = &d.capital_gain { let g = Rat::from_decimal(g); *by_year.entry(d.tx.settlement_date.year()).or_insert(Rat::zero()) = by_year.get(&d.tx.settlement_date.year()).cloned().unwrap_or(Rat::zero()).add(&g); total = total.add(&g); } } } let _ = s; }
    let tol = tol9();
    let agg = &r.res.aggregate_gains_table;
    let mut seen_years = 0;
    for row in &agg.rows {
        let Some(v) = money(&row[1]) else { return Verdict::Fail(format!("cannot read aggregate figure {:?}", row)); };
        if row[0] == "Since inception" { if !v.close(&total, &tol) { return Verdict::Fail(format!("aggregate total {} differs from the sum over error-free securities {} (rejected security {sec} leaked?)\n{csv}", v, total)); } }
        else { let y: i32 = row[0].parse().unwrap_or(0); let want = by_year.get(&y).cloned(); match want { Some(w) if w.close(&v, &tol) => seen_years += 1, _ => return Verdict::Fail(format!("aggregate year {y} shows {v}, error-free securities give {:?} (rejected security {sec} leaked?)\n{csv}", want)) } }
    }
    if seen_years != by_year.len() { return Verdict::Fail(format!("aggregate table misses a year: has {seen_years} of {}\n{csv}", by_year.len())); }
    // the rejected security's own footer shows no gains
    if let Some(v) = table.footer.get(9).and_then(|f| f.lines().next()).and_then(money) { if !v.is_zero() { return Verdict::Fail(format!("rejected security {sec} still shows a capital-gain total {v}\n{csv}")); } }
    // text mode
    let t = match run_text(&files, &case.run_opts(), false, false) { Ok(t) => t, Err(RunErr::Panic(p)) => return classify_panic(&p, csv), Err(_) => return Verdict::Fail("text run failed".into()) };
    let first = msg.lines().next().unwrap_or("");
    if !(t.out.contains(first) || t.err.contains(first)) { return Verdict::Fail(format!("text output does not show the rejection message for {sec}\n{csv}")); }
    // ... for EACH rejected security: a third of the cases add a second security with the very same rows (another account holding the same
    // fund), which is rejected with the same words whenever the message does not name the security - both tables must carry it
    if case.rows.len() % 3 == 0 && case.opening_for(sec).is_none() && sec != "TWIN" && !case.rows.iter().any(|r| r.sec == "TWIN") {
        let twin_rows: Vec<HRow> = sec_rows.iter().map(|r| { let mut t = r.clone(); t.sec = "TWIN".into(); t }).collect();
        let mut files2 = files.clone();
        files2.push(("twin.csv".to_string(), crate::gen::to_csv(&twin_rows)));
        let t2 = match run_text(&files2, &case.run_opts(), false, false) { Ok(t) => t, Err(RunErr::Panic(p)) => return classify_panic(&p, csv), Err(_) => return Verdict::Fail("text run failed".into()) };
        let twin_first = first.replace(sec, "TWIN");
        let shown = |m: &str| t2.out.matches(m).count() + t2.err.matches(m).count();
        let ok = if twin_first == first { shown(first) >= 2 } else { shown(first) >= 1 && shown(&twin_first) >= 1 };
        if !ok { return Verdict::Fail(format!("text output: with a second security (TWIN) holding the same rows, the rejection message {first:?} is shown {} time(s) - each rejected security's table must carry its message\n{csv}", shown(first))); }
        obs.class(if twin_first == first { "twin-security-rejected-with-the-same-words" } else { "twin-security-rejected" });
    }
    // csv writer mode (what --csv-output-dir writes, plus the error stream)
    let w = match run_csv_writer(&files, &case.run_opts(), false, false) { Ok(t) => t, Err(RunErr::Panic(p)) => return classify_panic(&p, csv), Err(_) => return Verdict::Fail("csv-writer run failed".into()) };
    let mut cells: Vec<String> = vec![];
    let mut rdr = csv::ReaderBuilder::new().has_headers(false).flexible(true).from_reader(w.out.as_bytes());
    for rec in rdr.records().flatten() { for c in rec.iter() { cells.push(c.to_string()); } }
    if !(cells.iter().any(|c| c.contains(msg.as_str())) || w.err.contains(first)) { return known_or_fail("F-04a", format!("CSV output mode never shows the rejection message for {sec} ({first})\n{csv}")); }
    // the real --csv-output-dir mode: files in a directory plus the error stream
    match crate::observe::run_csv_dir(&files, &case.run_opts()) {
        Ok((dir_files, err)) => {
            let mut found = err.contains(first);
            for (_, text) in &dir_files { let mut rdr = csv::ReaderBuilder::new().has_headers(false).flexible(true).from_reader(text.as_bytes()); for rec in rdr.records().flatten() { if rec.iter().any(|c| c.contains(msg.as_str())) { found = true; } } }
            if !found { return known_or_fail("F-04a", format!("--csv-output-dir mode: the rejection message for {sec} ({first}) is in none of the files written ({:?}) nor in the error stream\n{csv}", dir_files.iter().map(|f| f.0.clone()).collect::<Vec<_>>())); }
        }
        Err(RunErr::Panic(p)) => return classify_panic(&p, csv),
        Err(RunErr::Run(e)) | Err(RunErr::BadInit(e)) => return Verdict::Fail(format!("--csv-output-dir run failed: {e}\n{csv}")),
    }
    obs.class(format!("cause:{}", c.cause));
    obs.class(format!("model-cause:{}", match me.cause { Cause::OverSaleSeenFromWindow { .. } => "oversale-seen-from-earlier-loss-sale".to_string(), ref x => format!("{:?}", x) }));
    if me.src > 0 { obs.nt("offending-row-not-first"); }
    if res.len() > 1 { obs.class("other-securities-around"); }
    Verdict::Pass
}

fn accept_strategy(tier: Tier) -> BoxedStrategy<LedgerCase> { ledger_strategy(params(tier), 1) }

pub fn def() -> PropDef {
    let mut d = PropDef::new("C04", "(accept) valid histories from the model-guided generator must not be rejected and every row must satisfy the balance invariants; (reject) the same histories with exactly one listed cause planted at a chosen row (over-sale by epsilon / by a lot / covered by other affiliates, RoC > ACB, RoC or SfLA on a registered affiliate, whole-number reverse split leaving a fraction, declared SfL on a non-loss, declared SfL off by > 0.001) must be rejected with a message naming that row's trade date, showing exactly the model's ledger prefix, excluded from all totals, in text / CSV-writer / render-model modes. Non-trivial = rejected history whose offending row is not the first row of its security, or accepted history with a sale of the entire holding after a split. Distinct = distinct case content.");
    d.assumptions = vec!["reference model decides which histories contain a listed cause", "a split for all affiliates is never generated within three days of a per-affiliate split of the same security (the tool refuses that combination by design; finding F-04d)", "the CSV-directory mode is exercised through CsvWriter into a buffer plus the error stream; the real binary is covered by the C09 sub-check"];
    d.subs.push(Box::new(Sub::<LedgerCase> { name: "accept", cases_quick: 30_000, cases_thorough: 600_000, strategy: Box::new(accept_strategy), to_json: LedgerCase::to_json, from_json: LedgerCase::from_json, check: check_accept }));
    d.subs.push(Box::new(Sub::<RejectCase> { name: "reject", cases_quick: 20_000, cases_thorough: 400_000, strategy: Box::new(reject_strategy), to_json: RejectCase::to_json, from_json: RejectCase::from_json, check: check_reject }));
    d
}
