//! C15 — stock splits are value-neutral (metamorphic: history H vs H with an inserted split and restated later rows).
use super::common::*;
use super::PropDef;
use crate::bigrat::{tol9, Rat};
use crate::cmp::{compare_at, model_for, normalize_all, CmpWhat, NRow};
use crate::engine::{known_or_fail, Obs, Sub, Tier, Verdict};
use crate::gen::{intent_strategy, pick, wpick, ymd, HRow, Intent, OFFSETS};
use crate::model::{affiliate_id, Act};
use crate::observe::{run_deltas, RunErr, RunOpts};
use json::JsonValue;
use proptest::prelude::*;
use std::collections::BTreeMap;
use time::Duration;

#[derive(Clone, Debug)]
pub struct SplitPair { pub base: Vec<HRow>, pub with_split: Vec<HRow>, pub a: String, pub b: String, pub split_date: String, pub per_affiliate: bool, pub tags: Vec<String>,
    /// opening position of the default affiliate (--symbol-base FOO:<shares>:<cost>) given to both runs
    pub opening: Option<(String, String)> }

impl SplitPair {
    fn to_json(&self) -> JsonValue {
        json::object! { base_csv: crate::gen::to_csv(&self.base), split_csv: crate::gen::to_csv(&self.with_split), base: self.base.iter().map(|r| r.to_json()).collect::<Vec<_>>(), with_split: self.with_split.iter().map(|r| r.to_json()).collect::<Vec<_>>(), a: self.a.as_str(), b: self.b.as_str(), split_date: self.split_date.as_str(), per_affiliate: self.per_affiliate, opening: match &self.opening { Some((n, c)) => format!("{n}:{c}").into(), None => JsonValue::Null } }
    }
    fn from_json(v: &JsonValue) -> Option<SplitPair> {
        let base: Option<Vec<HRow>> = v["base"].members().map(HRow::from_json).collect();
        let ws: Option<Vec<HRow>> = v["with_split"].members().map(HRow::from_json).collect();
        Some(SplitPair { base: base?, with_split: ws?, a: v["a"].as_str()?.into(), b: v["b"].as_str()?.into(), split_date: v["split_date"].as_str()?.into(), per_affiliate: v["per_affiliate"].as_bool()?, tags: vec![], opening: v["opening"].as_str().and_then(|o| o.split_once(':')).map(|(n, c)| (n.to_string(), c.to_string())) })
    }
}

// (the last two are reverse splits NOT in lowest terms, written without decimals: whole shares only - every balance is a multiple of 3, so
// a third of it is whole)
const RATIOS: [(&str, &str); 18] = [("2", "1"), ("3", "1"), ("1", "2"), ("3", "2"), ("1", "3"), ("2", "3"), ("10", "1"), ("1", "10"), ("1.5", "1"), ("7", "3"), ("4", "1"), ("5", "1"), ("1", "4"), ("5", "2"), ("1", "6"), ("4", "3"), ("2", "6"), ("3", "9")];

/// Build H (all quantities multiples of 3, later per-share amounts multiples of a) and H' (split inserted, later rows restated).
fn build(head: &Intent, pre: &[Intent], events: &[Intent]) -> SplitPair {
    let sec = "FOO";
    let (sa, sb) = pick(head.split, &RATIOS);
    let (a, b) = (Rat::parse(sa).unwrap(), Rat::parse(sb).unwrap());
    let d0 = pick(head.date_off, &[ymd(2020, 6, 15), ymd(2019, 12, 31), ymd(2021, 1, 15), ymd(2024, 2, 29)]);
    let all_afs = ["", "Spouse", "(R)", "Kid"];
    let nafs = 1 + ((head.af as usize * all_afs.len()) >> 16);
    let afs = &all_afs[..nafs];
    #[derive(Clone)]
    struct E { off: i64, phase: u8, seq: usize, it: Intent, kind: u8 }
    let mut tl: Vec<E> = vec![];
    for (i, it) in pre.iter().enumerate() { tl.push(E { off: -(62 + (it.date_off as i64 % 40)), phase: 0, seq: i, it: it.clone(), kind: 0 }); }
    tl.push(E { off: 0, phase: 1, seq: 0, it: head.clone(), kind: 1 });
    for (i, it) in events.iter().enumerate() { let off = pick(it.date_off, &OFFSETS); let phase = if off < 0 { 0 } else if off > 0 { 2 } else if it.flag % 2 == 0 { 0 } else { 2 }; tl.push(E { off, phase, seq: i, it: it.clone(), kind: 2 }); }
    tl.sort_by_key(|e| (e.off, e.phase, e.kind, e.seq));
    // position of the split in the timeline: before entry k (same day, earlier in file) — or on its own day in between
    let k = (head.key as usize * (tl.len() + 1)) >> 16;
    let split_date = if k < tl.len() { d0 + Duration::days(tl[k].off) } else { d0 + Duration::days(tl.last().unwrap().off + 5) };
    let split_date = if head.flag % 3 == 0 && k > 0 && k < tl.len() && tl[k].off - tl[k - 1].off >= 2 { split_date - Duration::days(1) } else { split_date };
    #[derive(Clone, Default)]
    struct St { bal: Rat0, acb: Rat0 }
    #[derive(Clone)]
    struct Rat0(Rat);
    impl Default for Rat0 { fn default() -> Self { Rat0(Rat::zero()) } }
    let mut st: BTreeMap<String, St> = BTreeMap::new();
    // a quarter of the histories start from an opening position of the default affiliate (who may then have no rows of its own)
    let opening: Option<(String, String)> = if head.sfl % 4 == 0 { Some(pick(head.sfl / 4, &[("9", "90"), ("30", "100.5"), ("300", "0"), ("3", "1000")])).map(|(n, c)| (n.to_string(), c.to_string())) } else { None };
    if let Some((n, c)) = &opening { st.insert("default".into(), St { bal: Rat0(Rat::parse(n).unwrap()), acb: Rat0(Rat::parse(c).unwrap()) }); }
    let mut base: Vec<HRow> = vec![];
    let mut later: Vec<bool> = vec![];
    for (pos, e) in tl.iter().enumerate() {
        let it = &e.it;
        let d = d0 + Duration::days(e.off);
        let after = pos >= k;
        let mut af_sp = afs[(it.af as usize * afs.len()) >> 16].to_string();
        let (mut af_id, mut reg) = affiliate_id(&af_sp);
        let mut kind = match e.kind { 0 => Act::Buy, 1 => Act::Sell, _ => wpick(it.kind, &[(6u32, Act::Buy), (5, Act::Sell), (1, Act::Roc)]) };
        if e.kind == 1 && (reg || !st.get(&af_id).map(|s| s.bal.0.is_pos()).unwrap_or(false)) {
            if let Some((id, _)) = st.iter().find(|(id, s)| !id.ends_with("(R)") && s.bal.0.is_pos()) { af_id = id.clone(); reg = false; af_sp = afs.iter().find(|x| affiliate_id(x).0 == af_id).map(|x| x.to_string()).unwrap_or_default(); } else { kind = Act::Buy; }
        }
        let s = st.get(&af_id).cloned().unwrap_or_default();
        if kind == Act::Sell && !s.bal.0.is_pos() { kind = Act::Buy; }
        if kind == Act::Roc && (reg || !s.bal.0.is_pos()) { kind = Act::Buy; }
        let lag = wpick(it.settle, &[(3u32, 0i64), (2, 1), (3, 2)]);
        let mut r = HRow::new(sec, d - Duration::days(lag), d, kind);
        r.af = af_sp.clone();
        let unit = if after { a.clone() } else { Rat::one() }; // later per-share amounts are multiples of a (in cents)
        let cents = |x: &Rat| -> Rat { x.div(&unit).floor_dp(2).max(&Rat::ratio(1, 100)).mul(&unit) };
        match kind {
            Act::Buy => {
                r.shares = pick(it.qty, &["9", "18", "36", "90", "3", "6", "12", "30", "300", "27"]).to_string();
                let p = Rat::parse(pick(it.price, &["10", "9.99", "19.99", "100", "0.5", "7", "12.34"])).unwrap();
                r.price = p.mul(&unit).to_decimal_string(10).unwrap();
                if it.comm % 3 == 0 { r.comm = pick(it.comm, &["4.95", "1", "9.99"]).to_string(); }
            }
            Act::Sell => {
                let bal = s.bal.0.clone();
                let three = Rat::from_i64(3);
                let cands: Vec<Rat> = vec![bal.clone(), three.clone(), Rat::from_i64(6), Rat::from_i64(9), bal.sub(&three), bal.sub(&Rat::from_i64(6)), bal.sub(&Rat::from_i64(9))].into_iter().filter(|q| q.is_pos() && q.le(&bal)).collect();
                let q = if e.kind == 1 { wpick(it.frac, &[(3u32, 0usize), (2, 1), (2, 2), (2, 4), (1, 5)]) } else { wpick(it.frac, &[(4u32, 0usize), (2, 1), (1, 2), (2, 4)]) };
                let q = cands[q.min(cands.len() - 1)].clone();
                r.shares = q.to_decimal_string(10).unwrap();
                let per = if reg { Rat::from_i64(10) } else { s.acb.0.div(&bal) };
                let rel = if e.kind == 1 { wpick(it.rel, &[(8u32, 0u8), (1, 1), (1, 3)]) } else { wpick(it.rel, &[(5u32, 0u8), (1, 1), (3, 3)]) };
                let px = match rel { 0 => per.mul(&Rat::ratio(10 + (it.price % 80) as i64, 100)), 1 => per.sub(&Rat::ratio(1, 100)).max(&Rat::zero()), _ => per.mul(&Rat::ratio(110 + (it.price % 100) as i64, 100)) };
                r.price = cents(&px).to_decimal_string(10).unwrap();
                if it.comm % 4 == 0 { r.comm = pick(it.comm, &["4.95", "1"]).to_string(); }
            }
            Act::Roc => { let per = s.acb.0.div(&s.bal.0).mul(&Rat::ratio(1, 10)); r.price = cents(&per).to_decimal_string(10).unwrap(); if cents(&per).mul(&s.bal.0).gt(&s.acb.0) { r.act = Act::Buy; r.shares = "3".into(); r.price = unit.mul(&Rat::from_i64(10)).to_decimal_string(10).unwrap(); } }
            _ => {}
        }
        let kind = r.act;
        let m = r.to_mrow();
        let e2 = st.entry(af_id.clone()).or_default();
        match kind {
            Act::Buy => { e2.bal.0 = e2.bal.0.add(&m.shares); if !reg { e2.acb.0 = e2.acb.0.add(&m.shares.mul(&m.price)).add(&m.comm); } }
            Act::Sell => { let cost = if e2.bal.0.is_pos() { e2.acb.0.mul(&m.shares).div(&e2.bal.0) } else { Rat::zero() }; e2.bal.0 = e2.bal.0.sub(&m.shares); if !reg { e2.acb.0 = e2.acb.0.sub(&cost); } }
            Act::Roc => { e2.acb.0 = e2.acb.0.sub(&m.price.mul(&e2.bal.0)).max(&Rat::zero()); }
            _ => {}
        }
        base.push(r);
        later.push(after);
    }
    // H': split rows + restated later rows
    let per_affiliate = head.cur % 2 == 0;
    let whole_only = matches!((sa, sb), ("2", "6") | ("3", "9"));
    let ratio = if whole_only { format!("{sa}-for-{sb}") } else if b.gt(&a) || sa.contains('.') { format!("{}-for-{}", if sa.contains('.') { sa.to_string() } else { format!("{sa}.0") }, if sb.contains('.') { sb.to_string() } else { format!("{sb}.0") }) } else { format!("{sa}-for-{sb}") };
    let mut ids: Vec<String> = base.iter().map(|r| r.af.clone()).collect();
    if opening.is_some() && !ids.iter().any(|a| affiliate_id(a).0 == "default") { ids.push(String::new()); }
    ids.sort(); ids.dedup();
    // a third of the splits that factor are entered as two successive splits on the same day (6-for-1 as 2-for-1 then 3-for-1, ...)
    let fmt = |x: &str, y: &str| -> String { let (rx, ry) = (Rat::parse(x).unwrap(), Rat::parse(y).unwrap()); if ry.gt(&rx) || x.contains('.') { format!("{}-for-{}", if x.contains('.') { x.to_string() } else { format!("{x}.0") }, if y.contains('.') { y.to_string() } else { format!("{y}.0") }) } else { format!("{x}-for-{y}") } };
    let chain: Vec<String> = if head.ccur % 3 == 0 {
        match (sa, sb) { ("4", "1") => vec![fmt("2", "1"), fmt("2", "1")], ("10", "1") => vec![fmt("2", "1"), fmt("5", "1")], ("1", "4") => vec![fmt("1", "2"), fmt("1", "2")], ("1", "6") => vec![fmt("1", "2"), fmt("1", "3")], ("1", "10") => vec![fmt("1", "5"), fmt("1", "2")],
            ("3", "2") => vec![fmt("3", "1"), fmt("1", "2")], ("2", "3") => vec![fmt("1", "3"), fmt("2", "1")], ("4", "3") => vec![fmt("4", "1"), fmt("1", "3")], ("5", "2") => vec![fmt("5", "1"), fmt("1", "2")], ("3", "1") => vec![fmt("3", "2"), fmt("2", "1")], ("2", "1") => vec![fmt("4", "1"), fmt("1", "2")], _ => vec![ratio.clone()] }
    } else { vec![ratio.clone()] };
    let mut split_rows: Vec<HRow> = vec![];
    // a split row may carry a trade date before its settlement date; the settlement date is when it takes effect
    let split_td = split_date - Duration::days(wpick(head.settle, &[(3u32, 0i64), (1, 1), (1, 2), (1, 3)]));
    for ratio in &chain {
        if per_affiliate { for af in &ids { let mut s = HRow::new(sec, split_td, split_date, Act::Split); s.split = ratio.clone(); s.af = if af.is_empty() { "Default".into() } else { af.clone() }; split_rows.push(s); } }
        else { let mut s = HRow::new(sec, split_td, split_date, Act::Split); s.split = ratio.clone(); split_rows.push(s); }
    }
    let mut with_split: Vec<HRow> = vec![];
    let mut inserted = false;
    for (r, l) in base.iter().zip(later.iter()) {
        if *l && !inserted { with_split.extend(split_rows.iter().cloned()); inserted = true; }
        let mut c = r.clone();
        if *l {
            if matches!(c.act, Act::Buy | Act::Sell) { c.shares = Rat::parse(&c.shares).unwrap().mul(&a).div(&b).to_decimal_string(12).expect("restated shares representable"); }
            if matches!(c.act, Act::Buy | Act::Sell | Act::Roc) { c.price = Rat::parse(&c.price).unwrap().mul(&b).div(&a).to_decimal_string(12).expect("restated price representable"); }
        }
        with_split.push(c);
    }
    if !inserted { with_split.extend(split_rows.iter().cloned()); }
    // one split row per affiliate: the opening holder needs its own row too
    SplitPair { base, with_split, a: sa.into(), b: sb.into(), split_date: split_date.to_string(), per_affiliate, tags: vec![], opening }
}

fn strategy(_t: Tier) -> BoxedStrategy<SplitPair> {
    (intent_strategy(), proptest::collection::vec(intent_strategy(), 1..=3), proptest::collection::vec(intent_strategy(), 0..=7)).prop_map(|(h, p, e)| build(&h, &p, &e)).boxed()
}

fn user_units(rows: &[NRow]) -> Vec<(NRow, BTreeMap<String, Rat>)> {
    // (user row, map affiliate -> automatic adjustment amount following it); split rows dropped
    let mut out: Vec<(NRow, BTreeMap<String, Rat>)> = vec![];
    for r in rows {
        if r.auto { if let Some(last) = out.last_mut() { let e = last.1.entry(r.af.clone()).or_insert(Rat::zero()); *e = e.add(r.acb_delta.as_ref().unwrap_or(&Rat::zero())); } continue; }
        if r.act == Act::Split { continue; }
        out.push((r.clone(), BTreeMap::new()));
    }
    out
}

fn check(c: &SplitPair, obs: &mut Obs) -> Verdict {
    let opts = RunOpts { symbol_base: c.opening.iter().map(|(n, cst)| format!("FOO:{n}:{cst}")).collect(), ..RunOpts::default() };
    let opening_rat = c.opening.as_ref().map(|(n, cst)| (Rat::parse(n).unwrap(), Rat::parse(cst).unwrap()));
    let f1 = vec![("base.csv".to_string(), crate::gen::to_csv(&c.base))];
    let f2 = vec![("split.csv".to_string(), crate::gen::to_csv(&c.with_split))];
    let ctx = || format!("BASE\n{}WITH {}-for-{} split on {} ({})\n{}", f1[0].1, c.a, c.b, c.split_date, if c.per_affiliate { "one row per affiliate" } else { "one row for all affiliates" }, f2[0].1);
    let r1 = match run_deltas(&f1, &opts) { Ok(r) => r, Err(RunErr::Panic(p)) => return classify_panic(&p, &f1[0].1), Err(_) => return Verdict::Skip("base-run-error".into()) };
    let r2 = match run_deltas(&f2, &opts) { Ok(r) => r, Err(RunErr::Panic(p)) => return classify_panic(&p, &f2[0].1), Err(RunErr::Run(e)) => return Verdict::Fail(format!("history with split fails as a whole: {e}\n{}", ctx())), Err(RunErr::BadInit(e)) => return Verdict::Fail(e) };
    let (Some(t1), Some(t2)) = (r1.get("FOO"), r2.get("FOO")) else { return Verdict::Skip("empty".into()); };
    let (m1, m2) = (model_for(&c.base, opening_rat.clone()), model_for(&c.with_split, opening_rat.clone()));
    // when the tool and the exact model disagree on one side for a recorded rounding-residue reason, that explains any difference
    let residue = |rows: &[HRow], model: &crate::model::MResult, tool: &crate::observe::SecResult| -> Option<&'static str> {
        if let Some(msg) = &tool.err { if model.err.is_none() { return super::c04::residue_class(rows, model, msg); } return None; }
        if model.err.is_some() { return None; }
        match compare_at(&model.rows, &normalize_all(&tool.deltas), false, &CmpWhat::all()) { Err((_, at)) => zero_residue_class(rows, model, at), Ok(_) => None }
    };
    match (&t1.err, &t2.err) {
        (None, None) => {}
        (Some(_), Some(_)) => { obs.class("both-rejected"); return Verdict::Pass; }
        (e1, e2) => {
            if let Some(id) = residue(&c.with_split, &m2, t2).or_else(|| residue(&c.base, &m1, t1)) { return known_or_fail(id, format!("accepted without / rejected with the split (or vice versa): base {:?} split {:?}\n{}", e1, e2, ctx())); }
            return Verdict::Fail(format!("one history is rejected and the other accepted: base {:?}, with split {:?}\n{}", e1, e2, ctx()));
        }
    }
    let (u1, u2) = (user_units(&normalize_all(&t1.deltas)), user_units(&normalize_all(&t2.deltas)));
    let fail = |msg: String| -> Verdict {
        if let Some(id) = residue(&c.with_split, &m2, t2).or_else(|| residue(&c.base, &m1, t1)) { return known_or_fail(id, format!("{msg}\n{}", ctx())); }
        Verdict::Fail(format!("{msg}\n{}", ctx()))
    };
    if u1.len() != u2.len() { return fail(format!("{} rows without the split, {} with it", u1.len(), u2.len())); }
    let tol = tol9();
    let factor = Rat::parse(&c.a).unwrap().div(&Rat::parse(&c.b).unwrap());
    let sd = crate::gen::parse_date(&c.split_date).unwrap();
    // which base rows are "later": those restated (same positions)
    let later: Vec<bool> = { let mut chrono: Vec<usize> = (0..c.base.len()).collect(); chrono.sort_by_key(|&i| (c.base[i].sd, i)); let ws: Vec<&HRow> = c.with_split.iter().filter(|r| r.act != Act::Split).collect(); chrono.iter().map(|&i| ws[i].shares != c.base[i].shares || ws[i].price != c.base[i].price || c.base[i].sd > sd).collect() };
    for (i, ((x, ax), (y, ay))) in u1.iter().zip(u2.iter()).enumerate() {
        if x.act != y.act || x.af != y.af { return fail(format!("row {i}: {:?} by {} vs {:?} by {}", x.act, x.af, y.act, y.af)); }
        let opt = |p: &Option<Rat>, q: &Option<Rat>| match (p, q) { (None, None) => true, (Some(p), Some(q)) => p.close(q, &tol), _ => false };
        if !opt(&x.gain, &y.gain) { return fail(format!("row {i} ({:?} by {} settling {}): capital gain {:?} without the split, {:?} with it", x.act, x.af, x.sd, x.gain, y.gain)); }
        if !x.sfl.close(&y.sfl, &tol) { return fail(format!("row {i} ({:?} by {} settling {}): superficial loss {} without the split, {} with it", x.act, x.af, x.sd, x.sfl, y.sfl)); }
        if !opt(&x.acb, &y.acb) { return fail(format!("row {i} ({:?} by {} settling {}): total cost base {:?} without the split, {:?} with it", x.act, x.af, x.sd, x.acb, y.acb)); }
        let want = if later.get(i).copied().unwrap_or(false) { x.share_bal.mul(&factor) } else { x.share_bal.clone() };
        if !want.close(&y.share_bal, &tol) { return fail(format!("row {i} ({:?} by {} settling {}): share balance {} with the split, expected {} x {}/{} = {}", x.act, x.af, x.sd, y.share_bal, x.share_bal, c.a, c.b, want)); }
        let mut keys: Vec<&String> = ax.keys().chain(ay.keys()).collect(); keys.sort(); keys.dedup();
        for k in keys { let (p, q) = (ax.get(k).cloned().unwrap_or(Rat::zero()), ay.get(k).cloned().unwrap_or(Rat::zero())); if !p.close(&q, &tol) { return fail(format!("row {i}: automatic adjustment to {k}: {p} without the split, {q} with it")); } }
    }
    // the summary front end reports holdings and cost bases too: summarising everything (cut after the last row) must give, per affiliate,
    // the same total cost base with and without the split and share counts scaled by a/b
    {
        use crate::observe::{run_summary, SummaryErr};
        let last = c.base.iter().map(|r| r.sd).chain(c.with_split.iter().map(|r| r.sd)).max().unwrap_or(sd);
        let today = last + Duration::days(200);
        // summary at `cut`, written as CSV, read back together with the rows settling after the cut: final holdings per affiliate
        let summarise = |rows: &Vec<HRow>, cut: time::Date| -> Option<BTreeMap<String, (Rat, Option<Rat>)>> {
            let files = vec![("h.csv".to_string(), crate::gen::to_csv(rows))];
            let sm = match run_summary(&files, &opts, cut, false, today) { Ok(s) => s, Err(SummaryErr::Panic(_)) | Err(_) => return None };
            let later: Vec<HRow> = rows.iter().filter(|r| r.sd > cut).cloned().collect();
            if sm.n_rows == 0 && later.is_empty() { return Some(BTreeMap::new()); }
            let mut inputs = vec![];
            if sm.n_rows > 0 { inputs.push(("summary.csv".to_string(), sm.csv)); }
            if !later.is_empty() { inputs.push(("later.csv".to_string(), crate::gen::to_csv(&later))); }
            let mut o2 = opts.clone(); o2.symbol_base = vec![]; // the summary replaces the opening position as well
            let r = run_deltas(&inputs, &o2).ok()?;
            let t = r.get("FOO")?; if t.err.is_some() { return None; }
            let mut m = BTreeMap::new(); for row in normalize_all(&t.deltas) { m.insert(row.af.clone(), (row.share_bal.clone(), row.acb.clone())); } Some(m)
        };
        // cut 1: after the last row (everything is summarised).  cut 2: the day before the first loss sale that settles within 30 days
        // after the split - the summary then has to carry the split row itself (it cannot fold rows that close to a later loss sale),
        // so the ratio goes through the CSV writer and reader.
        let cut2 = m2.rows.iter().filter(|m| m.raw_gain.is_some() && m.sd > sd && (m.sd - sd).whole_days() <= 30).map(|m| m.sd - Duration::days(1)).filter(|d| *d >= sd).min();
        // (with an opening position the summary may or may not take it over - C10's business - so those cases are left out here)
        for (what, cut) in [("summary of everything", Some(last + Duration::days(1))), ("summary up to the day before a loss sale that follows the split", cut2)] {
            let Some(cut) = cut else { continue };
            if let (true, Some(h1), Some(h2)) = (c.opening.is_none(), summarise(&c.base, cut), summarise(&c.with_split, cut)) {
                let mut ids: Vec<&String> = h1.keys().chain(h2.keys()).collect(); ids.sort(); ids.dedup();
                for id in ids {
                    let zero = (Rat::zero(), Some(Rat::zero()));
                    let (a1, a2) = (h1.get(id).unwrap_or(&zero), h2.get(id).unwrap_or(&zero));
                    let acb_same = match (&a1.1, &a2.1) { (Some(x), Some(y)) => x.close(y, &tol), (None, None) => true, (Some(x), None) | (None, Some(x)) => x.is_zero() };
                    if !a1.0.mul(&factor).close(&a2.0, &tol) || !acb_same { return fail(format!("{what} (cut {cut}), read back with the later rows: {id} ends with {} shares / cost base {:?} without the split and {} shares / {:?} with it (expected x {}/{})", a1.0, a1.1.as_ref().map(|x| x.to_string()), a2.0, a2.1.as_ref().map(|x| x.to_string()), c.a, c.b)); }
                }
                obs.class(if what.starts_with("summary of everything") { "summary-front-end-compared" } else { "summary-carrying-the-split-row-compared" });
            }
        }
    }
    // classification
    let mut in_window = false;
    for m in &m1.rows { if m.raw_gain.is_some() && (m.sd - sd).whole_days().abs() <= 30 { in_window = true; if !m.sfl.is_zero() { obs.class("superficial-sale-with-split-in-window"); } } }
    if in_window { obs.nt("split-within-30-days-of-a-loss-sale"); }
    // an affiliate that holds nothing when the split happens
    let mut first_row: BTreeMap<String, time::Date> = BTreeMap::new();
    for r in &c.base { let id = affiliate_id(&r.af).0; let e = first_row.entry(id).or_insert(r.sd); if r.sd < *e { *e = r.sd; } }
    if first_row.values().any(|d| *d > sd) { obs.nt("an-affiliate-holds-nothing-at-the-split"); }
    obs.class(format!("ratio:{}-for-{}", c.a, c.b));
    obs.class(if c.per_affiliate { "per-affiliate-rows" } else { "one-row-for-all" });
    if c.with_split.iter().any(|r| r.act == Act::Split && r.td != r.sd) { obs.class("split-traded-before-it-settles"); }
    if c.opening.is_some() { obs.class("opening-position"); if !c.base.iter().any(|r| affiliate_id(&r.af).0 == "default") { obs.nt("opening-holder-without-rows-of-its-own"); } }
    { let mut per: BTreeMap<String, usize> = BTreeMap::new(); for r in c.with_split.iter().filter(|r| r.act == Act::Split) { *per.entry(r.af.clone()).or_insert(0) += 1; } if per.values().any(|n| *n >= 2) { obs.class("entered-as-two-successive-splits"); } }
    Verdict::Pass
}

pub fn def() -> PropDef {
    let mut d = PropDef::new("C15", "window scenarios H (1-4 affiliates incl. registered, a quarter with an opening position of the default affiliate, an anchor loss sale, 0-7 further buys/sales/RoC at boundary-weighted offsets; all share quantities multiples of 3 and later per-share amounts multiples of a, so the restated history is exactly representable) and H' = H with an a-for-b split inserted at a random position (same day before a row, or the day before) as one row for all affiliates or one row per affiliate (a third of the ratios that factor are entered as two successive same-day splits), later quantities x a/b and later per-share amounts x b/a; ratios 2-1, 3-1, 4-1, 5-1, 10-1, 1-2, 1-3, 1-4, 1-6, 1-10, 3-2, 2-3, 4-3, 5-2, 7-3, 1.5-1. Both runs must agree on accept/reject; the summary of everything (--summarize-before after the last row) must leave each affiliate the same cost base and a/b times the shares; every corresponding row must show the same gain, superficial loss, total ACB and automatic adjustments (1e-9) and share balances scaled by a/b. Non-trivial = the split lies within 30 days of a loss sale, or an affiliate holds nothing at the split, or the opening holder has no rows of its own. Distinct = distinct case content.");
    d.assumptions = vec!["base histories contain no other split", "USD rows are not used (rates are irrelevant to neutrality)"];
    d.subs.push(Box::new(Sub::<SplitPair> { name: "neutral", cases_quick: 60_000, cases_thorough: 1_200_000, strategy: Box::new(strategy), to_json: SplitPair::to_json, from_json: SplitPair::from_json, check }));
    d
}
