//! C19 — E*TRADE extraction accounts for every benefit and every sold share once (validity predicate).
use super::PropDef;
use crate::engine::{guard, Obs, Sub, Tier, Verdict};
use json::JsonValue;
use proptest::prelude::*;
use rust_decimal::Decimal;
use std::str::FromStr;
use time::{Date, Duration};

#[derive(Clone, Debug, PartialEq)]
pub struct Benefit { pub kind: String, pub sym: String, pub date: Date, pub shares: u32, pub fmv: String, pub sold: Option<u32>, pub sale_price: String, pub fee: String, pub note: String, pub sell_note: String }
#[derive(Clone, Debug, PartialEq)]
pub struct Trade { pub sym: String, pub td: Date, pub sd: Date, pub shares: u32, pub price: String, pub commission: String, pub fee: String, pub file: usize }
#[derive(Clone, Debug)]
pub struct Scenario { pub benefits: Vec<Benefit>, pub trades: Vec<Trade>, pub files: Vec<(String, String)> }

fn money(d: &str) -> String { // 1,234.56 style
    let v = Decimal::from_str(d).unwrap().round_dp(2);
    let s = format!("{:.2}", v); let (i, f) = s.split_once('.').unwrap();
    let mut out = String::new(); for (k, c) in i.chars().rev().enumerate() { if k > 0 && k % 3 == 0 { out.push(','); } out.push(c); }
    format!("{}.{}", out.chars().rev().collect::<String>(), f)
}
fn mdy_dash(d: Date) -> String { format!("{:02}-{:02}-{:04}", d.month() as u8, d.day(), d.year()) }
fn mdy_slash(d: Date) -> String { format!("{:02}/{:02}/{:04}", d.month() as u8, d.day(), d.year()) }
fn mdy_short(d: Date) -> String { format!("{:02}/{:02}/{:02}", d.month() as u8, d.day(), d.year() % 100) }

fn rsu_text(b: &Benefit, style: u8) -> String {
    let sold = b.sold.unwrap_or(0);
    let sep = if style == 0 { "\n" } else { " \n            " };
    let total = Decimal::from_str(&b.fmv).unwrap() * Decimal::from(b.shares);
    [" Release Summary".to_string(), "Account Number 12345678".into(), "Tax Payment Method Sell-to-cover".into(), format!("Company Name (Symbol) {} SYSTEMS, INC.\n({})", b.sym, b.sym), format!("Award Number {}", b.note.trim_start_matches("RSU ")), "Award Date 05-08-2020".into(), "Award Type RSU".into(),
     format!("Plan 2014Release Date {}", mdy_dash(b.date)), format!("Shares Released {}.0000", b.shares), format!("Market Value Per Share ${}", b.fmv), "Award Price Per Share $0.000000".into(), format!("Sale Price Per Share ${}", b.sale_price), " Release Details".into(), "Calculation of Gain ".into(),
     format!("Market Value ${}", money(&total.to_string())), "Award Price ($0.00)".into(), format!("Total Gain ${}", money(&total.to_string())), "Stock Distribution ".into(), format!("Award Shares {}.0000", b.shares), format!("Shares Sold ({}.0000)", sold), format!("Shares Issued {}.0000", b.shares - sold),
     "Registration: ETRADECalculation of Taxes".into(), " Taxable Gain $ Rate % Amount $".into(), "Total Tax $1,256.25".into(), "Cash Distribution ".into(), "Total Sale Price $1,415.03".into(), "Total Tax ($1,256.25)".into(), format!("Fee (${})", b.fee), "Total Due Participant $137.48EMPLOYEE STOCK PLAN RELEASE CONFIRMATION".into(),
     format!("Provided by {} SYSTEMS, INC.", b.sym), "JOHN DOE".into(), "VANCOUVER, BC CA HOH OHOEmployee ID: 0001".into(), "08/19/2022 11:00:59 AM ET Page 1 of\n1\n".into()].join(sep)
}

fn espp_text(b: &Benefit) -> String {
    let mut v = vec![" Purchase Summary".to_string(), "Account Number 12345678".into(), format!("Company Name (Symbol) {} SYSTEMS,\nINC.({})", b.sym, b.sym), "Plan ESP2".into(), "Grant Date 08-17-2020".into(), "Purchase Begin Date 08-17-2021".into(),
        format!("Purchase Date {}Shares Purchased to Date in Current Offering", mdy_dash(b.date)), "Beginning Balance 0.0000".into(), format!("Shares Purchased {}.0000", b.shares), format!("Total shares Purchased for Offering {}.0000", b.shares)];
    if let Some(s) = b.sold { v.push(format!("Shares Sold to Cover Taxes {}.0000", s)); }
    v.extend(vec![" Purchase Details".to_string(), "Total Price ($2,422.51)".into(), "Calculation of Gain ".into(), "Total Value $4,844.58".into(), "Total Price ($2,422.51)".into(), "Taxable Gain $4,802.27Calculation of Shares Purchased ".into(), "Grant Date Market Value $50.00000".into(),
        format!("Purchase Value per Share ${}", b.fmv), "Purchase Price per Share \n        (85.000% of $50.00000) $42.500000".into(), "Total Price \n        (Shares Purchased x Purchase Price) $2,422.507200".into()]);
    if b.sold.is_some() { v.extend(vec![format!("Sale Price for Shares Sold to Cover Taxes ${}", b.sale_price), " Total Taxes Collected at purchase ($2,200.21)".to_string(), format!("Fees (${})", b.fee), "Value Of Shares Sold $2,500.0000".into(), "Amount in Excess of Tax Due $202.0700".into()]); }
    v.extend(vec!["Net Carry Forward $0.00EMPLOYEE STOCK PLAN PURCHASE CONFIRMATION".to_string(), format!("Provided by {} SYSTEMS, INC.", b.sym), "VANCOUVER, BC CA HOH OHOEmployee ID: 0001".into(), "08/19/2022 11:09:42 AM ET Page 1 of\n1\n".into()]);
    v.join("\n")
}

fn eso_text(grants: &[Benefit]) -> String {
    let last = grants.last().unwrap();
    let mut v = vec!["        Account Number 11223344".to_string(), "Tax Payment Method Sell-to-cover".into(), format!("Company Name (Symbol) {} Inc.\n        ({})", last.sym, last.sym), String::new(), format!("Exercise Type: {} Registration", last.sell_note), String::new(), format!("Shares Sold {}", last.sold.unwrap_or(0)), String::new(), "Exercise Details".into(), String::new()];
    for (i, g) in grants.iter().enumerate() { v.extend(vec![format!("Grant {}", i + 1), format!("Grant Number {}", g.note.trim_start_matches("Option Grant ")), format!("Exercise Market Value ${}", money(&g.fmv)), format!("Shares Exercised {}", g.shares), format!("Sale Price ${}", money(&last.sale_price)), format!("Comission/Fee ${}", g.fee), String::new()]); }
    v.extend(vec![format!("Exercise Date:  {}", mdy_slash(last.date)), String::new(), format!("Provided by {} Inc.", last.sym), "John Doe".into(), "Employee ID: 1111".into(), "STOCK PLAN EXERCISE CONFIRMATION".into(), String::new()]);
    v.join("\n        ")
}

fn pre2023_text(trades: &[&Trade]) -> String {
    let mut s = String::from("E*TRADE Securities LLC\nP.O. Box484\n021620220001 900123456788Account Number: XXXX-1234\nUseThis Deposit Slip Acct: XXXX-1234Investment Account\nJOHN DOE\nCANADATRADECONFIRMATIONPage 1of2\nTRADE\nDATESETL\nDATEMKT /\nCPTSYMBOL /\nCUSIPBUY /\nSELL QUANTITY PRICEACCT\nTYPE\n");
    for t in trades {
        let principal = Decimal::from_str(&t.price).unwrap() * Decimal::from(t.shares);
        s += &format!("{} {} 61 {} SELL {} ${} Stock Plan PRINCIPAL ${}\n", mdy_short(t.td), mdy_short(t.sd), t.sym, t.shares, t.price, money(&principal.to_string()));
        // the supported layouts (fixtures): the company line carries the first charge - COMMISSION, followed by an optional FEE line,
        // or FEE alone when there is no commission
        if t.commission == "0" && t.fee != "0" { s += &format!("{} SYSTEMS INCCOM FEE ${}\n", t.sym, t.fee); }
        else { s += &format!("{} SYSTEMS INCCOM COMMISSION ${}\n", t.sym, if t.commission == "0" { "0.00" } else { t.commission.as_str() }); if t.fee != "0" { s += &format!("FEE ${}\n", t.fee); } }
        s += &format!("NET AMOUNT ${}\n\n", money(&principal.to_string()));
    }
    s += "237 9984 PBA 18397 1of1CEDLV AFPEDLV 16/02/22 21:40 001JOHN DOE\nCANADA\n";
    s
}

fn post2023_text(t: &Trade) -> String {
    let principal = Decimal::from_str(&t.price).unwrap() * Decimal::from(t.shares);
    let mut s = format!("Morgan Stanley Smith Barney LLC. Member SIPC.\n1 of 2Your Account Number: 123-XXX789-111\nAccount Type - Cash\nJOHN DOE\nE*TRADE from Morgan Stanley\nThis transaction is confirmed in accordance with the information provided on the Conditions and Disclosures page.\nTrade Date Settlement Date Quantity Price Settlement Amount\n{} {} {} {}\nTransaction Type: Sold\nDescription: {} SYSTEMS INC\nSymbol / CUSIP / ISIN: {} / 040413106 / US0404131064Principal ${}\n", mdy_slash(t.td), mdy_slash(t.sd), t.shares, t.price, t.sym, t.sym, money(&principal.to_string()));
    if t.commission != "0" { s += &format!("Commission ${}\n", t.commission); }
    s += "Supplemental\n";
    if t.fee != "0" { s += &format!("Transaction Fee ${}\n", t.fee); }
    s += &format!("Net Amount ${}\nUnsolicited trade\nMorgan Stanley Smith Barney LLC acted as agent.\n\n2 of 2\n", money(&principal.to_string()));
    s
}

pub fn scenario_strategy() -> BoxedStrategy<Scenario> {
    let benefit = (0u8..3, any::<bool>(), 0i64..12, 2u32..80, 1u32..40, 1000i64..30000, 1000i64..30000, 0i64..3000, 1usize..4, proptest::collection::vec((0i64..6, 0i64..3, -200i64..200), 3));
    (any::<bool>(), proptest::collection::vec(benefit, 1..5), proptest::collection::vec((any::<bool>(), 0i64..16, 1u32..40, 1000i64..30000, 0i64..7), 0..5), any::<u16>()).prop_map(|(post, bs, manual, shuffle)| {
        let base = if post { crate::gen::ymd(2024, 2, 20) } else { crate::gen::ymd(2022, 2, 14) };
        let mut benefits: Vec<Benefit> = vec![];
        let mut trades: Vec<Trade> = vec![];
        let mut files: Vec<(String, String)> = vec![];
        let mut pre_groups: Vec<Vec<usize>> = vec![];
        for (bi, (kind, symb, off, shares, sold, fmv, sp, fee, nsplit, parts)) in bs.into_iter().enumerate() {
            let sym = if symb { "FOO" } else { "BAR" }.to_string();
            let date = base + Duration::days(off);
            let sold = sold.min(shares.saturating_sub(1)).max(1);
            let fmv_s = format!("{}.{:02}0000", fmv / 100, fmv % 100);
            let sp_s = format!("{}.{:02}0000", sp / 100, sp % 100);
            let fee_s = format!("{}.{:02}", fee / 100, fee % 100);
            let first_new = benefits.len();
            match kind {
                0 => { let b = Benefit { kind: "RSU".into(), sym: sym.clone(), date, shares, fmv: fmv_s, sold: Some(sold), sale_price: sp_s.clone(), fee: fee_s, note: format!("RSU R{}", 12000 + bi), sell_note: "sell-to-cover".into() }; files.push((format!("rsu_{bi}.txt"), rsu_text(&b, (off % 2) as u8))); benefits.push(b); }
                1 => { let with_sale = off % 3 != 0; let b = Benefit { kind: "ESPP".into(), sym: sym.clone(), date, shares, fmv: fmv_s, sold: if with_sale { Some(sold) } else { None }, sale_price: sp_s.clone(), fee: fee_s, note: "ESPP".into(), sell_note: "sell-to-cover".into() }; files.push((format!("espp_{bi}.txt"), espp_text(&b))); benefits.push(b); }
                _ => {
                    let n = 1 + (off as usize % 3);
                    // the confirmation reports ONE consolidated 'Shares Sold' figure for all its grants: in half of the multi-grant
                    // exercises it exceeds what the last grant alone exercised
                    let total: u32 = (0..n as u32).map(|g| shares + g).sum();
                    let sold = if n > 1 && (off / 3) % 2 == 0 { (sold + shares * (n as u32 - 1)).min(total - 1) } else { sold };
                    let mut gs = vec![];
                    for g in 0..n { gs.push(Benefit { kind: "ESO".into(), sym: sym.clone(), date, shares: shares + g as u32, fmv: format!("{}.{:02}", fmv / 100 + g as i64, fmv % 100), sold: if g + 1 == n { Some(sold) } else { None }, sale_price: format!("{}.{:02}", sp / 100, sp % 100), fee: format!("{}.{:02}", fee / 100 + g as i64, fee % 100), note: format!("Option Grant {}", 1000 + bi * 10 + g), sell_note: "Same-Day Sale".into() }); }
                    files.push((format!("eso_{bi}.txt"), eso_text(&gs)));
                    benefits.extend(gs);
                }
            }
            // the trades that make up this benefit's sell-to-cover
            let sold_b = benefits[first_new..].iter().rev().find_map(|b| b.sold);
            if let Some(total) = sold_b {
                let k = nsplit.min(total as usize).max(1);
                let mut left = total;
                let mut group = vec![];
                // an order filled in two equal lots: two confirmations identical in every field but the file they come in
                let twin_lots = k == 2 && total % 2 == 0 && parts[0].2.rem_euclid(3) == 0;
                for p in 0..k {
                    if twin_lots {
                        let (d_off, lag, dp) = parts[0];
                        let d_off = if benefits[first_new].kind == "ESO" { 0 } else { d_off };
                        let td = date + Duration::days(d_off);
                        let price = (sp + dp).max(100);
                        trades.push(Trade { sym: sym.clone(), td, sd: td + Duration::days(lag), shares: total / 2, price: format!("{}.{:02}", price / 100, price % 100), commission: "4.95".into(), fee: "0.28".into(), file: 0 });
                        group.push(trades.len() - 1);
                        continue;
                    }
                    // uneven fills: any size that leaves at least one share for each later fill
                    let n = if p + 1 == k { left } else if parts[p % parts.len()].2 % 2 == 0 { (left / (k - p) as u32).max(1) } else { 1 + parts[p % parts.len()].2.unsigned_abs() as u32 % (left - (k - p - 1) as u32) };
                    left -= n;
                    let (d_off, lag, dp) = parts[p % parts.len()];
                    let d_off = if benefits[first_new].kind == "ESO" { 0 } else { d_off };
                    let td = date + Duration::days(d_off);
                    let price = sp + dp;
                    trades.push(Trade { sym: sym.clone(), td, sd: td + Duration::days(lag), shares: n, price: format!("{}.{:02}", price.max(100) / 100, price.max(100) % 100), commission: if (dp.rem_euclid(7) + p as i64) % 2 == 0 { "4.95".into() } else { "0".into() }, fee: if dp.rem_euclid(3) != 0 { "0.28".into() } else { "0".into() }, file: 0 });
                    group.push(trades.len() - 1);
                }
                pre_groups.push(group);
            }
        }
        for (symb, off, n, px, lag) in manual {
            // a third of the manual sales come as a pair that rivals a benefit's sell-to-cover: same symbol, inside its
            // 5-day window, share counts adding up to its sold shares, prices near its stated sale price
            let rival = benefits.iter().filter(|b| b.sold.map(|s| s >= 2).unwrap_or(false)).nth((px as usize / 7) % 4);
            if let (true, Some(b)) = (lag >= 5, rival) {
                let (sold, sp) = (b.sold.unwrap(), (dec(&b.sale_price) * Decimal::from(100)).trunc().to_string().parse::<i64>().unwrap_or(1000));
                let td = b.date + Duration::days(off % 6);
                let n1 = 1 + n % (sold - 1);
                let (sym, d1, d2) = (b.sym.clone(), px % 400 - 200, (px / 400) % 400 - 200);
                for (sh, dpx) in [(n1, d1), (sold - n1, d2)] {
                    let price = (sp + dpx).max(100);
                    trades.push(Trade { sym: sym.clone(), td, sd: td + Duration::days(lag % 3), shares: sh, price: format!("{}.{:02}", price / 100, price % 100), commission: "4.95".into(), fee: "0".into(), file: 0 });
                    pre_groups.push(vec![trades.len() - 1]);
                }
                continue;
            }
            let td = base + Duration::days(off);
            // (now and then the same manual sale twice: two equal lots)
            for _ in 0..(if px % 11 == 0 { 2 } else { 1 }) {
                trades.push(Trade { sym: if symb { "FOO" } else { "BAR" }.into(), td, sd: td + Duration::days(lag % 3), shares: n, price: format!("{}.{:02}", px / 100, px % 100), commission: "4.95".into(), fee: "0".into(), file: 0 });
                pre_groups.push(vec![trades.len() - 1]);
            }
        }
        // trade confirmation files: post-2023 one trade per file; pre-2023 one file per group of same-day trades
        if post { for (i, t) in trades.iter_mut().enumerate() { t.file = i; files.push((format!("trade_conf_{i}.txt"), String::new())); } let n0 = files.len() - trades.len(); for (i, t) in trades.iter().enumerate() { files[n0 + i].1 = post2023_text(t); } }
        else { for (gi, g) in pre_groups.iter().enumerate() { let ts: Vec<&Trade> = g.iter().map(|&i| &trades[i]).collect(); files.push((format!("trade_conf_{gi}.txt"), pre2023_text(&ts))); } }
        // shuffled file names
        let mut order: Vec<usize> = (0..files.len()).collect();
        order.sort_by_key(|&i| ((i as u32 + 1).wrapping_mul(shuffle as u32 | 1).wrapping_mul(2654435761)) >> 8);
        // a quarter of the scenarios keep each confirmation in a folder of its own under the SAME base name (trade_conf.txt, rsu.txt, ...), as
        // a download-per-event habit produces them
        let in_folders = shuffle % 4 == 1;
        let strip = |n: &str| -> String { match n.rsplit_once('_') { Some((a, b)) if b.trim_end_matches(".txt").chars().all(|c| c.is_ascii_digit()) => format!("{a}.txt"), _ => n.to_string() } };
        let files = order.into_iter().enumerate().map(|(k, i)| (if in_folders { format!("{:02}_event/{}", k, strip(&files[i].0)) } else { format!("{:02}_{}", k, files[i].0) }, files[i].1.clone())).collect();
        Scenario { benefits, trades, files }
    }).boxed()
}

impl Scenario {
    fn to_json(&self) -> JsonValue {
        json::object! {
            benefits: self.benefits.iter().map(|b| json::object! { kind: b.kind.as_str(), sym: b.sym.as_str(), date: b.date.to_string(), shares: b.shares, fmv: b.fmv.as_str(), sold: match b.sold { Some(s) => s.into(), None => JsonValue::Null }, sale_price: b.sale_price.as_str(), fee: b.fee.as_str(), note: b.note.as_str(), sell_note: b.sell_note.as_str() }).collect::<Vec<_>>(),
            trades: self.trades.iter().map(|t| json::object! { sym: t.sym.as_str(), td: t.td.to_string(), sd: t.sd.to_string(), shares: t.shares, price: t.price.as_str(), commission: t.commission.as_str(), fee: t.fee.as_str() }).collect::<Vec<_>>(),
            files: crate::gen::files_json(&self.files),
        }
    }
    fn from_json(v: &JsonValue) -> Option<Scenario> {
        let d = |x: &JsonValue| x.as_str().and_then(crate::gen::parse_date);
        let benefits: Option<Vec<Benefit>> = v["benefits"].members().map(|b| Some(Benefit { kind: b["kind"].as_str()?.into(), sym: b["sym"].as_str()?.into(), date: d(&b["date"])?, shares: b["shares"].as_u32()?, fmv: b["fmv"].as_str()?.into(), sold: b["sold"].as_u32(), sale_price: b["sale_price"].as_str()?.into(), fee: b["fee"].as_str()?.into(), note: b["note"].as_str()?.into(), sell_note: b["sell_note"].as_str()?.into() })).collect();
        let trades: Option<Vec<Trade>> = v["trades"].members().map(|t| Some(Trade { sym: t["sym"].as_str()?.into(), td: d(&t["td"])?, sd: d(&t["sd"])?, shares: t["shares"].as_u32()?, price: t["price"].as_str()?.into(), commission: t["commission"].as_str()?.into(), fee: t["fee"].as_str()?.into(), file: 0 })).collect();
        Some(Scenario { benefits: benefits?, trades: trades?, files: crate::gen::files_from_json(&v["files"])? })
    }
}

pub fn run_extract(files: &[(String, String)], tag: &str) -> Result<(bool, String, String), crate::engine::PanicInfo> {
    let dir = std::env::temp_dir().join(format!("c19-{}-{tag}", std::process::id()));
    let _ = std::fs::remove_dir_all(&dir);
    let _ = std::fs::create_dir_all(&dir);
    let mut paths = vec![];
    for (n, t) in files { let p = dir.join(n); if let Some(par) = p.parent() { let _ = std::fs::create_dir_all(par); } let _ = std::fs::write(&p, t); paths.push(p); }
    let (oh, ob) = acb::util::rw::WriteHandle::string_buff_write_handle();
    let (eh, eb) = acb::util::rw::WriteHandle::string_buff_write_handle();
    let r = guard(|| acb::peripheral::etrade_plan_pdf_tx_extract_impl::run_with_args(acb::peripheral::etrade_plan_pdf_tx_extract_impl::Args { files: paths.clone(), pretty: false, extract_only: false, debug: false }, oh, eh));
    let _ = std::fs::remove_dir_all(&dir);
    let r = r?;
    let (out, err) = (ob.borrow().as_str().to_string(), eb.borrow().as_str().to_string());
    Ok((r.is_ok(), out, err))
}

fn dec(s: &str) -> Decimal { Decimal::from_str(s).unwrap_or(Decimal::ZERO) }

fn check(sc: &Scenario, obs: &mut Obs) -> Verdict {
    crate::observe::reset_globals(crate::observe::far_today());
    let show = || format!("benefits: {:#?}\ntrades: {:#?}", sc.benefits, sc.trades);
    let (ok, out, err) = match run_extract(&sc.files, "s") { Ok(x) => x, Err(p) => return Verdict::Fail(format!("panic in etrade-plan-pdf-tx-extract: {}\n{}", p.sig(), show())) };
    if !ok {
        if err.contains("Found no trades matching the sell-to-cover") || err.contains("Unable to decide between multiple trade combinations") { obs.class("error-instead-of-a-guess"); obs.nt("unmatched-or-ambiguous-sell-to-cover"); return Verdict::Pass; }
        return Verdict::Fail(format!("well-formed confirmations rejected: {err}\n{}", show()));
    }
    // parse the output CSV
    let mut rd = csv::ReaderBuilder::new().has_headers(true).from_reader(out.as_bytes());
    let hdr: Vec<String> = rd.headers().map(|h| h.iter().map(|s| s.to_string()).collect()).unwrap_or_default();
    let col = |n: &str| hdr.iter().position(|h| h == n);
    let (Some(cs), Some(ct), Some(csd), Some(ca), Some(cn), Some(cp), Some(cc), Some(cm)) = (col("security"), col("trade date"), col("settlement date"), col("action"), col("shares"), col("amount/share"), col("commission"), col("memo")) else { return Verdict::Fail(format!("unexpected output header {:?}", hdr)); };
    let rows: Vec<Vec<String>> = rd.records().flatten().map(|r| r.iter().map(|s| s.to_string()).collect()).collect();
    // (d) ordered by settlement date
    let sds: Vec<Date> = rows.iter().filter_map(|r| crate::gen::parse_date(&r[csd])).collect();
    if sds.len() != rows.len() || sds.windows(2).any(|w| w[0] > w[1]) { return Verdict::Fail(format!("output rows are not ordered by settlement date\n{out}")); }
    // (a) exactly one Buy per benefit
    let mut buys: Vec<&Vec<String>> = rows.iter().filter(|r| r[ca] == "Buy").collect();
    for b in &sc.benefits {
        let pos = buys.iter().position(|r| r[cs] == b.sym && r[ct] == b.date.to_string() && dec(&r[cn]) == Decimal::from(b.shares) && dec(&r[cp]) == dec(&b.fmv) && r[cm] == b.note);
        match pos { Some(i) => { buys.remove(i); } None => return Verdict::Fail(format!("no purchase row for benefit {:?}\n{out}\n{}", b, show())) }
    }
    if !buys.is_empty() { return Verdict::Fail(format!("unexpected purchase rows {:?}\n{out}", buys)); }
    // (b) manual rows equal distinct input trades
    let sells: Vec<&Vec<String>> = rows.iter().filter(|r| r[ca] == "Sell").collect();
    let mut remaining: Vec<&Trade> = sc.trades.iter().collect();
    let mut stc_rows: Vec<&Vec<String>> = vec![];
    for r in &sells {
        if r[cm].ends_with("(manual trade)") {
            let pos = remaining.iter().position(|t| t.sym == r[cs] && t.td.to_string() == r[ct] && t.sd.to_string() == r[csd] && Decimal::from(t.shares) == dec(&r[cn]) && dec(&t.price) == dec(&r[cp]) && dec(&t.commission) + dec(&t.fee) == dec(&r[cc]));
            match pos { Some(i) => { remaining.remove(i); } None => return Verdict::Fail(format!("a '(manual trade)' row matches no (remaining) trade confirmation: {:?}\n{out}\n{}", r, show())) }
        } else { stc_rows.push(r); }
    }
    // (c) the other trades are partitioned over the sell-to-cover rows
    let sold: Vec<&Benefit> = sc.benefits.iter().filter(|b| b.sold.is_some()).collect();
    if stc_rows.len() != sold.len() { return Verdict::Fail(format!("{} sell-to-cover rows for {} benefits with sold shares\n{out}", stc_rows.len(), sold.len())); }
    // pair rows with benefits by memo/shares/price/fee
    let mut pairs: Vec<(&Benefit, &Vec<String>)> = vec![];
    let mut rows_left = stc_rows.clone();
    for b in &sold {
        let memo = format!("{} {}", b.note, b.sell_note);
        let pos = rows_left.iter().position(|r| r[cs] == b.sym && r[cm] == memo && dec(&r[cn]) == Decimal::from(b.sold.unwrap()) && dec(&r[cp]) == dec(&b.sale_price));
        match pos { Some(i) => pairs.push((b, rows_left.remove(i))), None => return Verdict::Fail(format!("no sell-to-cover row for benefit {:?}\n{out}", b)) }
    }
    // exact search: assign every remaining trade to one benefit
    fn assign(i: usize, rem: &[&Trade], pairs: &[(&Benefit, &Vec<String>)], sums: &mut Vec<u32>, dated: &mut Vec<bool>, ct: usize, csd: usize) -> bool {
        if i == rem.len() { return pairs.iter().enumerate().all(|(k, (b, _))| sums[k] == b.sold.unwrap() && dated[k]); }
        let t = rem[i];
        for (k, (b, r)) in pairs.iter().enumerate() {
            if t.sym != b.sym || t.td < b.date || t.td > b.date + Duration::days(5) || sums[k] + t.shares > b.sold.unwrap() { continue; }
            let was = dated[k];
            sums[k] += t.shares; if t.td.to_string() == r[ct] && t.sd.to_string() == r[csd] { dated[k] = true; }
            if assign(i + 1, rem, pairs, sums, dated, ct, csd) { return true; }
            sums[k] -= t.shares; dated[k] = was;
        }
        false
    }
    let (mut sums, mut dated) = (vec![0u32; pairs.len()], vec![false; pairs.len()]);
    if !assign(0, &remaining, &pairs, &mut sums, &mut dated, ct, csd) {
        return Verdict::Fail(format!("the trade confirmations not emitted as manual trades cannot be split into one group per sell-to-cover row (same security, traded within 5 days after the benefit, shares adding up to the sold shares, row dated as one of the group): some trade's shares are lost or counted twice\n{out}\n{}", show()));
    }
    // (f) which group: among the trade sets that could be the sell-to-cover, the one whose average sale price is closest
    // to the benefit's stated sale price wins.  Checked where the choice is not entangled with another benefit's: no other
    // benefit with sold shares of the same security within reach of the same trades.
    for (k, (b, _)) in pairs.iter().enumerate() {
        let entangled = pairs.iter().enumerate().any(|(j, (o, _))| j != k && o.sym == b.sym && (o.date - b.date).whole_days().abs() <= 5);
        if entangled { continue; }
        let in_window = |t: &Trade| t.sym == b.sym && t.td >= b.date && t.td <= b.date + Duration::days(5);
        let cands: Vec<&Trade> = sc.trades.iter().filter(|t| in_window(t)).collect();
        let chosen: Vec<&Trade> = remaining.iter().cloned().filter(|t| in_window(t)).collect();
        if cands.len() > 16 { continue; }
        let stated = dec(&b.sale_price);
        let dist = |set: &[&Trade]| -> Decimal { let sh: Decimal = set.iter().map(|t| Decimal::from(t.shares)).sum(); let val: Decimal = set.iter().map(|t| Decimal::from(t.shares) * dec(&t.price)).sum(); (val / sh - stated).abs() };
        let mut best: Option<(Decimal, Vec<&Trade>)> = None;
        let mut n_sets = 0;
        for mask in 1u32..(1u32 << cands.len()) {
            let set: Vec<&Trade> = (0..cands.len()).filter(|i| mask >> i & 1 == 1).map(|i| cands[i]).collect();
            if set.iter().map(|t| t.shares).sum::<u32>() != b.sold.unwrap() { continue; }
            n_sets += 1;
            let d = dist(&set);
            if best.as_ref().map(|x| d < x.0).unwrap_or(true) { best = Some((d, set)); }
        }
        if n_sets >= 2 { obs.nt("rival-trade-sets-for-one-sell-to-cover"); }
        if let Some((dmin, bset)) = best {
            if chosen.is_empty() { continue; }
            let dc = dist(&chosen);
            if dc > dmin + Decimal::new(1, 18) {
                return Verdict::Fail(format!("sell-to-cover of {} ({} shares at stated price {}): the tool took the trades {:?} (average price off by {}), although {:?} add up to the same shares and average closer to the stated price (off by {})\n{out}\n{}", b.note, b.sold.unwrap(), b.sale_price, chosen.iter().map(|t| format!("{}@{}", t.shares, t.price)).collect::<Vec<_>>(), dc, bset.iter().map(|t| format!("{}@{}", t.shares, t.price)).collect::<Vec<_>>(), dmin, show()));
            }
        }
    }
    // (e) every row is accepted by acb (row level)
    let accepted = guard(|| -> Result<(), String> {
        let mut r = acb::util::rw::DescribedReader::from_string("extracted.csv".into(), out.clone());
        let mut parsed = acb::portfolio::io::tx_csv::parse_tx_csv(&mut r, 0, &Default::default(), &mut acb::util::rw::WriteHandle::empty_write_handle())?;
        let mut loader = crate::observe::synthetic_loader(2021..=2025);
        async_std::task::block_on(acb::portfolio::io::tx_loader::load_tx_rates(&mut parsed, &mut loader))?;
        for c in parsed { acb::portfolio::Tx::try_from(c)?; }
        Ok(())
    });
    match accepted { Err(p) => return Verdict::Fail(format!("panic feeding the output to acb: {}", p.sig())), Ok(Err(e)) => return Verdict::Fail(format!("acb rejects an emitted row: {e}\n{out}")), Ok(Ok(())) => {} }
    // classification
    let overlapping = sold.iter().enumerate().any(|(i, a)| sold.iter().skip(i + 1).any(|b| a.sym == b.sym && (a.date - b.date).whole_days().abs() <= 5));
    if overlapping { obs.nt(">=2-benefits-with-overlapping-5-day-windows"); }
    let mut counts: std::collections::BTreeMap<(String, u32), u32> = Default::default();
    for t in &sc.trades { *counts.entry((t.sym.clone(), t.shares)).or_insert(0) += 1; }
    if counts.values().any(|c| *c >= 2) { obs.nt("equal-share-counts-among-trades"); }
    if sc.trades.iter().enumerate().any(|(i, a)| sc.trades.iter().skip(i + 1).any(|b| a.sym == b.sym && a.td == b.td && a.sd == b.sd && a.shares == b.shares && a.price == b.price && a.commission == b.commission && a.fee == b.fee)) { obs.class("two-identical-confirmations"); }
    for b in &sc.benefits { obs.class(format!("benefit:{}", b.kind)); }
    if sc.files.iter().any(|f| f.0.contains('/')) { obs.class("confirmations-in-folders-under-one-base-name"); }
    if sc.benefits.iter().any(|b| b.kind == "ESO" && b.sold.map(|s| s > b.shares).unwrap_or(false)) { obs.class("option-exercise-selling-more-than-its-last-grant"); }
    if rows.iter().any(|r| r[cm].ends_with("(manual trade)")) { obs.class("manual-trades"); }
    if err.contains("varrying dates") { obs.class("warning:varying-dates"); }
    Verdict::Pass
}

pub fn def() -> PropDef {
    let mut d = PropDef::new("C19", "scenario-first generation: 1-4 benefit confirmations (RSU; ESPP with or without sell-to-cover; option exercise with 1-3 grants and one consolidated sale that may exceed the last grant) on 1-2 symbols dated within 12 days of each other, each sold-share count split into 1-3 trades 0-5 days later, in even or uneven fills, plus 0-4 manual sales (equal share counts, up to day 15; a third of them come as a pair rivalling a benefit's sell-to-cover: same window, shares adding up to its sold shares, prices near its stated price), rendered into the text layouts of the repository's fixtures (benefit confirmations in two whitespace styles; pre-2023 multi-trade and post-2023 single-trade confirmations) as .txt files with shuffled names, run through run_with_args. Validity predicate over the output CSV: one Buy per benefit (shares, FMV, date, note); every '(manual trade)' row equals a distinct input trade; the remaining trades can be partitioned (exact search) into one group per sell-to-cover row (same security, within [benefit date, +5 days], shares summing to the sold shares, row dated as a trade of the group); where a benefit's choice is not entangled with another benefit's (no other sold benefit of the same security within 5 days) the group taken must be the candidate set whose share-weighted average price is closest to the stated sale price (all subsets enumerated); rows ordered by settlement date; every row accepted by acb. The tool's own 'no trades matching' / 'unable to decide' errors are allowed (an error, not a guess) and counted. Non-trivial = >= 2 benefits whose 5-day windows overlap, or equal share counts among the trades, or >= 2 rival trade sets for one sell-to-cover, or an error outcome. Distinct = distinct case content.");
    d.assumptions = vec!["text layouts are those of the repository's fixtures; real PDF extraction variance is not modelled"];
    d.subs.push(Box::new(Sub::<Scenario> { name: "scenario", cases_quick: 6_000, cases_thorough: 300_000, strategy: Box::new(|_| scenario_strategy()), to_json: Scenario::to_json, from_json: Scenario::from_json, check }));
    d
}
