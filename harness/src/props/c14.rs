//! C14 — an interrupted cache write cannot corrupt exchange rates (fault enumeration via verif_hooks).
use super::PropDef;
use crate::engine::{guard, known_or_fail, Obs as O, Sub, Tier, Verdict};
use crate::fxfake::{ymd, Calendar, CountingRemote, Obs};
use acb::fx::io::verif_hooks::{set_crash_point, take_step_log, CrashPoint, SimulatedCrash};
use acb::fx::io::{CsvRatesCache, RateLoader};
use acb::util::rw::WriteHandle;
use json::JsonValue;
use proptest::prelude::*;
use std::cell::RefCell;
use std::collections::BTreeMap;
use std::rc::Rc;
use time::{Date, Duration, Weekday};

#[derive(Clone, Debug)]
pub struct CrashCase { pub cal: Calendar, pub year: i32, pub today: Date, pub requested: Date, pub prior_today: Option<Date>, pub later_lookups: Vec<Date>, pub stride: usize,
    /// the earlier run's cache file was moved elsewhere and is reached through a symbolic link (a cache kept in a synced folder)
    pub prior_symlink: bool }

impl CrashCase {
    fn to_json(&self) -> JsonValue { json::object! { calendar: self.cal.to_json(), year: self.year, today: self.today.to_string(), requested: self.requested.to_string(), prior_today: self.prior_today.map(|d| d.to_string()), later_lookups: self.later_lookups.iter().map(|d| d.to_string()).collect::<Vec<_>>(), stride: self.stride, prior_symlink: self.prior_symlink } }
    fn from_json(v: &JsonValue) -> Option<CrashCase> {
        let d = |k: &str| v[k].as_str().and_then(crate::gen::parse_date);
        Some(CrashCase { cal: Calendar::from_json(&v["calendar"])?, year: v["year"].as_i32()?, today: d("today")?, requested: d("requested")?, prior_today: d("prior_today"), later_lookups: v["later_lookups"].members().filter_map(|x| x.as_str().and_then(crate::gen::parse_date)).collect(), stride: v["stride"].as_usize().unwrap_or(1), prior_symlink: v["prior_symlink"].as_bool().unwrap_or(false) })
    }
}

fn strategy(tier: Tier) -> BoxedStrategy<CrashCase> {
    let stride = tier.pick(1usize, 1usize);
    (2012i32..=2022, proptest::collection::vec(any::<u32>(), 64), 50u16..=366, 0u8..4, proptest::collection::vec(any::<u16>(), 5), any::<u16>()).prop_map(move |(year, seeds, nrows, prior, looks, req)| {
        let mut cal = Calendar::default();
        let mut d = ymd(year, 1, 1);
        let mut k = 0usize;
        while d.year() == year {
            let s = seeds[k % seeds.len()].wrapping_mul(2654435761).wrapping_add(k as u32 * 40503);
            if !matches!(d.weekday(), Weekday::Saturday | Weekday::Sunday) && s % 23 != 0 {
                // rates with 1..10 decimals, below and above 1 (values are what the bank publishes for that year's series)
                let dp = 1 + (s >> 8) % 10;
                let frac = (s as u64 * 7919) % 10u64.pow(dp);
                let v = if year >= 2017 { format!("0.{:0width$}", frac.max(1), width = dp as usize) } else { format!("{}.{:0width$}", 1 + (s >> 4) % 2, frac, width = dp as usize) };
                cal.days.insert(d, Obs::Published(v));
            }
            d = d.next_day().unwrap(); k += 1;
        }
        // (a few observations early in the following year, for runs that happen then)
        for k in 1..20 { let d = ymd(year + 1, 1, 1) + Duration::days(k); if !matches!(d.weekday(), Weekday::Saturday | Weekday::Sunday) { cal.days.insert(d, Obs::Published(format!("{}.{:04}", if year + 1 >= 2017 { 0 } else { 1 }, 5000 + 37 * k as u32))); } }
        // "today" of the interrupted run: so that about `nrows` rows are written
        let mut today = ymd(year, 1, 1) + Duration::days(nrows.min(365) as i64);
        let mut requested = today - Duration::days(1 + (req % 9) as i64);
        // a fifth of the first downloads are of a COMPLETED year (the run happens early in the next one; the whole year is written, down to
        // its last observation at the end of December) and ask for one of its last days
        if prior == 0 && req % 5 == 0 { today = ymd(year + 1, 1, 20) + Duration::days((nrows % 40) as i64); requested = ymd(year, 12, 31) - Duration::days((req / 5 % 4) as i64); }
        let prior_today = match prior { 0 => None, 1 => Some(today - Duration::days(40)), _ => Some(today - Duration::days(12)) };
        let later_lookups = looks.iter().map(|x| ymd(year, 1, 1) + Duration::days((*x as i64) % (nrows as i64 + 5))).collect();
        CrashCase { cal, year, today, requested, prior_today, later_lookups, stride, prior_symlink: prior == 3 }
    }).boxed()
}

fn loader(dir: &std::path::Path, cal: &Rc<Calendar>, cutoff: Date, calls: &Rc<RefCell<BTreeMap<u32, u32>>>) -> RateLoader {
    RateLoader::new(false, Box::new(CsvRatesCache::new(dir.to_path_buf(), WriteHandle::empty_write_handle())), Box::new(CountingRemote { cal: cal.clone(), cutoff, calls: calls.clone() }), WriteHandle::empty_write_handle())
}

fn prepare(dir: &std::path::Path, c: &CrashCase, cal: &Rc<Calendar>) {
    let _ = std::fs::remove_dir_all(dir);
    std::fs::create_dir_all(dir).expect("scratch dir");
    if let Some(pt) = c.prior_today {
        // an earlier, complete run leaves an older cache file
        acb::util::date::set_todays_date_for_test(pt);
        let calls = Rc::new(RefCell::new(BTreeMap::new()));
        let mut l = loader(dir, cal, pt, &calls);
        let _ = l.blocking_get_effective_usd_cad_rate(pt - Duration::days(3));
        if c.prior_symlink {
            let live = dir.join(format!("rates-{}.csv", c.year));
            let store = dir.join(format!("synced-rates-{}.csv", c.year));
            if live.exists() && std::fs::rename(&live, &store).is_ok() { let _ = std::os::unix::fs::symlink(store.file_name().unwrap(), &live); }
        }
    }
}

fn check(c: &CrashCase, obs: &mut O) -> Verdict {
    let cal = Rc::new(c.cal.clone());
    let base = if std::path::Path::new("/dev/shm").is_dir() { std::path::PathBuf::from("/dev/shm") } else { std::env::temp_dir() };
    let dir = base.join(format!("acbverif-c14-{}-{:x}", std::process::id(), crate::engine::hash_str(&c.to_json().dump())));
    let template = base.join(format!("acbverif-c14t-{}-{:x}", std::process::id(), crate::engine::hash_str(&c.to_json().dump())));
    crate::observe::reset_globals(c.today);
    // dry run: how many bytes and which steps does the write consist of?
    prepare(&dir, c, &cal);
    acb::util::date::set_todays_date_for_test(c.today);
    set_crash_point(None);
    let calls = Rc::new(RefCell::new(BTreeMap::new()));
    { let mut l = loader(&dir, &cal, c.today, &calls); let _ = l.blocking_get_effective_usd_cad_rate(c.requested); }
    let log = take_step_log();
    if calls.borrow().get(&(c.year as u32)).copied().unwrap_or(0) == 0 { let _ = std::fs::remove_dir_all(&dir); return Verdict::Skip("interrupted-run-would-not-download".into()); }
    let total: u64 = log.iter().filter_map(|s| s.strip_prefix("wrote:").and_then(|n| n.parse().ok())).max().unwrap_or(0);
    let steps: Vec<String> = { let mut v: Vec<String> = log.iter().filter(|s| !s.starts_with("wrote:")).cloned().collect(); v.dedup(); v };
    let final_bytes = std::fs::read(dir.join(format!("rates-{}.csv", c.year))).unwrap_or_default();
    if total == 0 || final_bytes.is_empty() { let _ = std::fs::remove_dir_all(&dir); return Verdict::Fail(format!("hooks saw no bytes written (log {:?})", log)); }
    let mut points: Vec<CrashPoint> = (0..=total).step_by(c.stride.max(1)).map(CrashPoint::AfterBytes).collect();
    for s in &steps { points.push(CrashPoint::AtStep(s.clone())); }
    let later_today = c.today + Duration::days(3);
    let mut outcomes: BTreeMap<&'static str, u64> = BTreeMap::new();
    prepare(&template, c, &cal);
    // the directory exactly as the earlier run left it: contents, left-over files, and which names share one inode (hard links)
    let template_links: Vec<(std::ffi::OsString, std::path::PathBuf)> = std::fs::read_dir(&template).map(|d| d.filter_map(|e| e.ok()).filter(|e| e.file_type().map(|t| t.is_symlink()).unwrap_or(false)).filter_map(|e| std::fs::read_link(e.path()).ok().map(|t| (e.file_name(), t))).collect()).unwrap_or_default();
    let template_files: Vec<(std::ffi::OsString, Vec<u8>, u64)> = std::fs::read_dir(&template).map(|d| d.filter_map(|e| e.ok()).filter(|e| !e.file_type().map(|t| t.is_symlink()).unwrap_or(false)).filter_map(|e| { use std::os::unix::fs::MetadataExt; let ino = e.metadata().map(|m| m.ino()).unwrap_or(0); std::fs::read(e.path()).ok().map(|b| (e.file_name(), b, ino)) }).collect()).unwrap_or_default();
    let _ = std::fs::remove_dir_all(&template);
    // what a run without any cache directory answers for a date (same bank, same day): the post-crash run must either download again and
    // answer the same, or answer the same from what it found - the rate of an earlier day where the bank has a newer one is a wrong rate
    let ref_calls = Rc::new(RefCell::new(BTreeMap::new()));
    let mut lref = RateLoader::new(false, Box::new(acb::fx::io::InMemoryRatesCache::new()), Box::new(CountingRemote { cal: cal.clone(), cutoff: later_today, calls: ref_calls.clone() }), WriteHandle::empty_write_handle());
    let mut ref_answers: BTreeMap<Date, Option<(Date, rust_decimal::Decimal)>> = BTreeMap::new();
    for p in &points {
        let _ = std::fs::remove_dir_all(&dir);
        let _ = std::fs::create_dir_all(&dir);
        { let mut first_of: BTreeMap<u64, std::path::PathBuf> = BTreeMap::new(); for (n, b, ino) in &template_files { match first_of.get(ino) { Some(orig) if *ino != 0 => { let _ = std::fs::hard_link(orig, dir.join(n)); } _ => { let _ = std::fs::write(dir.join(n), b); first_of.insert(*ino, dir.join(n)); } } } for (n, t) in &template_links { let _ = std::os::unix::fs::symlink(t, dir.join(n)); } }
        acb::util::date::set_todays_date_for_test(c.today);
        set_crash_point(Some(p.clone()));
        let calls = Rc::new(RefCell::new(BTreeMap::new()));
        let r = std::panic::catch_unwind(std::panic::AssertUnwindSafe(|| { let mut l = loader(&dir, &cal, c.today, &calls); l.blocking_get_effective_usd_cad_rate(c.requested) }));
        set_crash_point(None);
        match r { Err(e) => { if e.downcast_ref::<SimulatedCrash>().is_none() { let _ = std::fs::remove_dir_all(&dir); return Verdict::Fail(format!("unexpected panic while writing the cache at {:?}", p)); } } Ok(_) => { *outcomes.entry("crash-point-not-reached").or_insert(0) += 1; } }
        // what is on disk now?
        let on_disk = std::fs::read(dir.join(format!("rates-{}.csv", c.year))).unwrap_or_default();
        let text = String::from_utf8_lossy(&on_disk).to_string();
        let mut dates_present: Vec<Date> = text.lines().filter_map(|l| l.split(',').next().and_then(crate::gen::parse_date)).collect();
        dates_present.sort();
        let inside_row = match p { CrashPoint::AfterBytes(b) => *b > 0 && *b < total && final_bytes.get(*b as usize - 1) != Some(&b'\n'), _ => false };
        if inside_row { obs.nt_keys.push(format!("{}|{:?}", c.year, p)); }
        // a later run over the post-crash directory
        acb::util::date::set_todays_date_for_test(later_today);
        let calls2 = Rc::new(RefCell::new(BTreeMap::new()));
        let mut l2 = loader(&dir, &cal, later_today, &calls2);
        let mut looks: Vec<Date> = dates_present.iter().rev().take(3).cloned().collect();
        if let Some(last) = dates_present.last() { looks.push(*last + Duration::days(1)); }
        looks.push(c.requested);
        looks.extend(c.later_lookups.iter().cloned());
        if c.today.year() > c.year { for k in 0..3 { looks.push(ymd(c.year, 12, 31) - Duration::days(k)); } }
        for d in looks {
            match guard(|| l2.blocking_get_effective_usd_cad_rate(d)) {
                Err(pn) => { let _ = std::fs::remove_dir_all(&dir); return Verdict::Fail(format!("panic in the later run after a crash at {:?}: {}", p, pn.sig())); }
                Ok(Ok(r)) => {
                    let truth = c.cal.published(r.date);
                    if truth != Some(r.foreign_to_local_rate) {
                        let tail: String = text.chars().rev().take(60).collect::<String>().chars().rev().collect();
                        let _ = std::fs::remove_dir_all(&dir);
                        let detail = format!("cache write interrupted at {:?} (of {total} bytes; prior cache: {}); a later run looking up {d} computes with {} for {}, the bank published {:?}; cache file now ends with {:?}", p, if c.prior_today.is_some() { "older complete file" } else { "none" }, r.foreign_to_local_rate, r.date, truth, tail);
                        return known_or_fail("F-14a", detail);
                    }
                    let want = ref_answers.entry(d).or_insert_with(|| match guard(|| lref.blocking_get_effective_usd_cad_rate(d)) { Ok(Ok(w)) => Some((w.date, w.foreign_to_local_rate)), _ => None }).clone();
                    if let Some((wd, wr)) = want { if wd != r.date || wr != r.foreign_to_local_rate {
                        let _ = std::fs::remove_dir_all(&dir);
                        return known_or_fail("F-14a", format!("cache write interrupted at {:?} (of {total} bytes; prior cache: {}); a later run looking up {d} neither downloads again nor answers as a run without a cache does: it computes with {} (the rate of {}), the bank's rate for that look-up is {} (of {})", p, if c.prior_today.is_some() { "older complete file" } else { "none" }, r.foreign_to_local_rate, r.date, wr, wd));
                    } }
                    *outcomes.entry(if calls2.borrow().is_empty() { "served-from-post-crash-cache" } else { "re-downloaded" }).or_insert(0) += 1;
                }
                Ok(Err(_)) => { *outcomes.entry("error").or_insert(0) += 1; }
            }
        }
        obs.sub_evals += 1;
        crate::engine::heartbeat();
    }
    // ---- three-run variant: crash late in the file, then a COMPLETE run whose download is a little shorter (the bank no longer
    // reports a few early observations; everything it still reports is unchanged), then the look-ups.  A left-over temporary file
    // from the crash must not leak its tail into the file the complete run publishes.
    let mut cal2v = c.cal.clone();
    let early: Vec<Date> = cal2v.days.iter().filter(|(d, o)| d.year() == c.year && matches!(o, crate::fxfake::Obs::Published(_))).map(|(d, _)| *d).take(4).collect();
    for d in &early { cal2v.days.remove(d); }
    let cal2 = Rc::new(cal2v);
    let mid_today = c.today + Duration::days(1);
    let mut three_run = 0u64;
    for b in (total.saturating_sub(60)..total).filter(|b| *b > 0) {
        let p = CrashPoint::AfterBytes(b);
        let _ = std::fs::remove_dir_all(&dir);
        let _ = std::fs::create_dir_all(&dir);
        { let mut first_of: BTreeMap<u64, std::path::PathBuf> = BTreeMap::new(); for (n, bts, ino) in &template_files { match first_of.get(ino) { Some(orig) if *ino != 0 => { let _ = std::fs::hard_link(orig, dir.join(n)); } _ => { let _ = std::fs::write(dir.join(n), bts); first_of.insert(*ino, dir.join(n)); } } } for (n, t) in &template_links { let _ = std::os::unix::fs::symlink(t, dir.join(n)); } }
        acb::util::date::set_todays_date_for_test(c.today);
        set_crash_point(Some(p.clone()));
        let calls = Rc::new(RefCell::new(BTreeMap::new()));
        let r = std::panic::catch_unwind(std::panic::AssertUnwindSafe(|| { let mut l = loader(&dir, &cal, c.today, &calls); l.blocking_get_effective_usd_cad_rate(c.requested) }));
        set_crash_point(None);
        if let Err(e) = r { if e.downcast_ref::<SimulatedCrash>().is_none() { let _ = std::fs::remove_dir_all(&dir); return Verdict::Fail(format!("unexpected panic while writing the cache at {:?}", p)); } }
        // the complete run
        acb::util::date::set_todays_date_for_test(mid_today);
        let calls_mid = Rc::new(RefCell::new(BTreeMap::new()));
        { let mut lm = loader(&dir, &cal2, mid_today, &calls_mid); let _ = guard(|| lm.blocking_get_effective_usd_cad_rate(c.requested)); }
        let _ = take_step_log();
        let text = std::fs::read_to_string(dir.join(format!("rates-{}.csv", c.year))).unwrap_or_default();
        let mut dates_present: Vec<Date> = text.lines().filter_map(|l| l.split(',').next().and_then(crate::gen::parse_date)).collect();
        dates_present.sort(); dates_present.dedup();
        acb::util::date::set_todays_date_for_test(later_today);
        let calls3 = Rc::new(RefCell::new(BTreeMap::new()));
        let mut l3 = loader(&dir, &cal2, later_today, &calls3);
        let mut looks: Vec<Date> = dates_present.iter().rev().take(4).cloned().collect();
        looks.push(c.requested);
        for d in looks {
            if let Ok(Ok(r)) = guard(|| l3.blocking_get_effective_usd_cad_rate(d)) {
                let truth = cal2.published(r.date);
                if truth != Some(r.foreign_to_local_rate) {
                    let tail: String = text.chars().rev().take(80).collect::<String>().chars().rev().collect();
                    let _ = std::fs::remove_dir_all(&dir);
                    return known_or_fail("F-14a", format!("cache write interrupted at {:?} (of {total} bytes), then a complete run that downloads a slightly shorter year (the bank no longer reports {:?}); a later run looking up {d} computes with {} for {}, the bank publishes {:?}; cache file now ends with {:?}", p, early, r.foreign_to_local_rate, r.date, truth, tail));
                }
            }
        }
        three_run += 1;
        obs.sub_evals += 1;
        crate::engine::heartbeat();
    }
    if three_run > 0 { obs.class("three-run:crash-then-shorter-complete-write"); }
    // ---- two-crash variant: a first interrupted write leaves whatever it leaves (a temporary file), then the re-download of the next
    // run is interrupted late in the file as well; the live cache file must still never hold a cut-off observation.
    let mut two_crash = 0u64;
    for b in (total.saturating_sub(45)..total).filter(|b| *b > 0) {
        let _ = std::fs::remove_dir_all(&dir);
        let _ = std::fs::create_dir_all(&dir);
        { let mut first_of: BTreeMap<u64, std::path::PathBuf> = BTreeMap::new(); for (n, bts, ino) in &template_files { match first_of.get(ino) { Some(orig) if *ino != 0 => { let _ = std::fs::hard_link(orig, dir.join(n)); } _ => { let _ = std::fs::write(dir.join(n), bts); first_of.insert(*ino, dir.join(n)); } } } for (n, t) in &template_links { let _ = std::os::unix::fs::symlink(t, dir.join(n)); } }
        for p in [CrashPoint::AfterBytes((total / 2).max(1)), CrashPoint::AfterBytes(b)] {
            acb::util::date::set_todays_date_for_test(c.today);
            set_crash_point(Some(p.clone()));
            let calls = Rc::new(RefCell::new(BTreeMap::new()));
            let r = std::panic::catch_unwind(std::panic::AssertUnwindSafe(|| { let mut l = loader(&dir, &cal, c.today, &calls); l.blocking_get_effective_usd_cad_rate(c.requested) }));
            set_crash_point(None);
            if let Err(e) = r { if e.downcast_ref::<SimulatedCrash>().is_none() { let _ = std::fs::remove_dir_all(&dir); return Verdict::Fail(format!("unexpected panic while writing the cache at {:?} (second of two interrupted runs)", p)); } }
        }
        let _ = take_step_log();
        let text = String::from_utf8_lossy(&std::fs::read(dir.join(format!("rates-{}.csv", c.year))).unwrap_or_default()).to_string();
        let mut dates_present: Vec<Date> = text.lines().filter_map(|l| l.split(',').next().and_then(crate::gen::parse_date)).collect();
        dates_present.sort(); dates_present.dedup();
        acb::util::date::set_todays_date_for_test(later_today);
        let calls3 = Rc::new(RefCell::new(BTreeMap::new()));
        let mut l3 = loader(&dir, &cal, later_today, &calls3);
        let mut looks: Vec<Date> = dates_present.iter().rev().take(3).cloned().collect();
        if let Some(last) = dates_present.last() { looks.push(*last + Duration::days(1)); }
        looks.push(c.requested);
        for d in looks {
            match guard(|| l3.blocking_get_effective_usd_cad_rate(d)) {
                Err(pn) => { let _ = std::fs::remove_dir_all(&dir); return Verdict::Fail(format!("panic in the later run after two interrupted writes (second at byte {b}): {}", pn.sig())); }
                Ok(Ok(r)) => {
                    let truth = c.cal.published(r.date);
                    if truth != Some(r.foreign_to_local_rate) {
                        let tail: String = text.chars().rev().take(60).collect::<String>().chars().rev().collect();
                        let _ = std::fs::remove_dir_all(&dir);
                        return known_or_fail("F-14a", format!("two cache writes in a row interrupted (after {} and after {b} of {total} bytes; prior cache: {}); a later run looking up {d} computes with {} for {}, the bank published {:?}; cache file now ends with {:?}", (total / 2).max(1), if c.prior_today.is_some() { "older complete file" } else { "none" }, r.foreign_to_local_rate, r.date, truth, tail));
                    }
                }
                Ok(Err(_)) => {}
            }
        }
        two_crash += 1;
        obs.sub_evals += 1;
        crate::engine::heartbeat();
    }
    if two_crash > 0 { obs.class("two-crash:left-over-temporary-file-then-second-interrupted-write"); }
    // ---- other-year variant: the interrupted write of this year is followed by a COMPLETE run that only needs ANOTHER year (it happens
    // the following January and looks up a January date); whatever the first run left behind must still not be taken for this year's rates
    let mut other_year = 0u64;
    if c.today.year() == c.year {
        let jan_today = ymd(c.year + 1, 1, 25);
        let jan_lookup = ymd(c.year + 1, 1, 12);
        let after = jan_today + Duration::days(3);
        let ref_calls2 = Rc::new(RefCell::new(BTreeMap::new()));
        let mut lref2 = RateLoader::new(false, Box::new(acb::fx::io::InMemoryRatesCache::new()), Box::new(CountingRemote { cal: cal.clone(), cutoff: after, calls: ref_calls2.clone() }), WriteHandle::empty_write_handle());
        let mut ref2: BTreeMap<Date, Option<(Date, rust_decimal::Decimal)>> = BTreeMap::new();
        for b in (total.saturating_sub(30)..total).filter(|b| *b > 0) {
            let _ = std::fs::remove_dir_all(&dir);
            let _ = std::fs::create_dir_all(&dir);
            { let mut first_of: BTreeMap<u64, std::path::PathBuf> = BTreeMap::new(); for (n, bts, ino) in &template_files { match first_of.get(ino) { Some(orig) if *ino != 0 => { let _ = std::fs::hard_link(orig, dir.join(n)); } _ => { let _ = std::fs::write(dir.join(n), bts); first_of.insert(*ino, dir.join(n)); } } } for (n, t) in &template_links { let _ = std::os::unix::fs::symlink(t, dir.join(n)); } }
            acb::util::date::set_todays_date_for_test(c.today);
            set_crash_point(Some(CrashPoint::AfterBytes(b)));
            let calls = Rc::new(RefCell::new(BTreeMap::new()));
            let r = std::panic::catch_unwind(std::panic::AssertUnwindSafe(|| { let mut l = loader(&dir, &cal, c.today, &calls); l.blocking_get_effective_usd_cad_rate(c.requested) }));
            set_crash_point(None);
            if let Err(e) = r { if e.downcast_ref::<SimulatedCrash>().is_none() { let _ = std::fs::remove_dir_all(&dir); return Verdict::Fail(format!("unexpected panic while writing the cache at byte {b}")); } }
            // the complete run of the following January
            acb::util::date::set_todays_date_for_test(jan_today);
            { let calls_j = Rc::new(RefCell::new(BTreeMap::new())); let mut lj = loader(&dir, &cal, jan_today, &calls_j); let _ = guard(|| lj.blocking_get_effective_usd_cad_rate(jan_lookup)); }
            let _ = take_step_log();
            // and a run after it that asks for this year again
            acb::util::date::set_todays_date_for_test(after);
            let calls3 = Rc::new(RefCell::new(BTreeMap::new()));
            let mut l3 = loader(&dir, &cal, after, &calls3);
            let text = String::from_utf8_lossy(&std::fs::read(dir.join(format!("rates-{}.csv", c.year))).unwrap_or_default()).to_string();
            let mut dates_present: Vec<Date> = text.lines().filter_map(|l| l.split(',').next().and_then(crate::gen::parse_date)).collect();
            dates_present.sort(); dates_present.dedup();
            let mut looks: Vec<Date> = dates_present.iter().rev().take(3).cloned().collect();
            looks.push(c.requested);
            for d in looks {
                if let Ok(Ok(r)) = guard(|| l3.blocking_get_effective_usd_cad_rate(d)) {
                    let want = ref2.entry(d).or_insert_with(|| match guard(|| lref2.blocking_get_effective_usd_cad_rate(d)) { Ok(Ok(w)) => Some((w.date, w.foreign_to_local_rate)), _ => None }).clone();
                    let wrong = match want { Some((wd, wr)) => wd != r.date || wr != r.foreign_to_local_rate, None => c.cal.published(r.date) != Some(r.foreign_to_local_rate) };
                    if wrong {
                        let tail: String = text.chars().rev().take(60).collect::<String>().chars().rev().collect();
                        let _ = std::fs::remove_dir_all(&dir);
                        return known_or_fail("F-14a", format!("cache write of {} interrupted after {b} of {total} bytes, then a complete run in January {} that only needed that year's rates; a later run looking up {d} computes with {} for {}, a run without a cache answers {:?}; {}'s cache file now ends with {:?}", c.year, c.year + 1, r.foreign_to_local_rate, r.date, want, c.year, tail));
                    }
                }
            }
            other_year += 1;
            obs.sub_evals += 1;
            crate::engine::heartbeat();
        }
    }
    if other_year > 0 { obs.class("other-year:interrupted-write-then-a-complete-run-for-the-next-year"); }
    let _ = std::fs::remove_dir_all(&dir);
    for (k, v) in outcomes { obs.class(format!("{k}(x{})", if v > 1000 { ">1000" } else if v > 100 { ">100" } else { "<=100" })); }
    obs.class(format!("steps:{}", steps.join("+")));
    if c.today.year() > c.year { obs.class("first-download-of-a-completed-year"); }
    obs.class(match (c.prior_today, c.prior_symlink) { (None, _) => "prior:none", (Some(_), false) => "prior:older-complete-file", (Some(_), true) => "prior:older-complete-file-behind-a-symlink" });
    Verdict::Pass
}

pub fn def() -> PropDef {
    let mut d = PropDef::new("C14", "fault enumeration: for each generated year content (50-366 rows, or a completed year downloaded early in the next one; rates with 1-10 decimals, below and above 1, zero placeholders for unpublished days) and prior cache state (none / the directory exactly as an earlier complete run of the product left it, hard links and left-over files included, or with the year's file reached through a symbolic link), a run that downloads the year is interrupted at EVERY byte offset of the cache file write (0..len, via the verif_hooks CrashWriter) and at every named step boundary of the write procedure; after each crash a fresh loader (today + 3 days, remote = published calendar) looks up the last three dates present in the file, the first missing date, the interrupted run's date and 5 random dates. In addition, for the last 60 byte offsets of each content: crash, then a COMPLETE run whose download is a few bytes shorter (the bank no longer reports four early observations, nothing else changes), then the look-ups; for the last 30 byte offsets: the interrupted write, then a complete run the following January that only needs the NEXT year's rates, then look-ups of this year; and for the last 45 byte offsets: a first write interrupted half way (leaving its temporary file), then the re-download interrupted at that offset, then the look-ups. Violation = a look-up returns a rate that differs from the published rate of the date it carries, or (after a single crash) a rate / date other than a run without any cache directory answers for that look-up. Non-trivial = crash point strictly inside a row (file does not end in a newline). Distinct = distinct (content, crash point).");
    d.level = "fault_enumeration";
    d.exhaustive = true;
    d.assumptions = vec!["crash model: operations persist in program order (what the hook sees); a filesystem that reorders un-synced writes behind a rename is outside this model", "byte offsets are exhaustive per generated content; contents are sampled"];
    d.subs.push(Box::new(Sub::<CrashCase> { name: "crash", cases_quick: 16, cases_thorough: 320, strategy: Box::new(strategy), to_json: CrashCase::to_json, from_json: CrashCase::from_json, check }));
    d
}
