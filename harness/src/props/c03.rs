//! C03 — money is conserved: a denied loss moves into cost base, once, in full (model-free identity).
use super::common::*;
use super::PropDef;
use crate::bigrat::{tol9, Rat};
use crate::cmp::{compare, model_for, normalize_all, CmpWhat, NRow};
use crate::engine::{Obs, Sub, Tier, Verdict};
use crate::gen::{GenParams, HRow};
use crate::model::{affiliate_id, Act};
use crate::observe::{run_deltas, RunErr};
use proptest::prelude::*;
use std::collections::{BTreeMap, BTreeSet};

pub fn ledger_params(tier: Tier) -> GenParams {
    let mut p = GenParams::ledger();
    p.afs = vec!["", "Spouse", "My  Kid"]; // the identity's premise: every affiliate non-registered
    p.manual_sfla = false; // and no manual superficial-loss entries
    p.max_rows = tier.pick(16, 36);
    p
}
fn identity_strategy(tier: Tier) -> BoxedStrategy<LedgerCase> {
    // a quarter of the histories trade symbols that are not all upper case (the first of them may carry the opening cost base)
    let mut mixed = ledger_params(tier);
    mixed.secs = vec!["Brk.b", "xeqt", "FOO"];
    prop_oneof![3 => ledger_strategy(ledger_params(tier), 2), 1 => ledger_strategy(mixed, 2)].boxed()
}
fn window_strategy(_t: Tier) -> BoxedStrategy<LedgerCase> {
    let mut p = super::c02::scen_params();
    p.afs = vec!["", "Spouse", "Kid"];
    p.max_events = 8;
    super::c02::scenario_strategy(p)
}

/// The accounting identity at every prefix, from the input rows' cash flows and the tool's own rows.
pub fn identity(sec_rows: &[HRow], opening: Option<(Rat, Rat)>, tool: &[NRow], obs: &mut Obs) -> Result<(), String> {
    let tol = tol9();
    // chronological input rows that move cash (splits move none; a split for everyone expands into several tool rows)
    let mut idx: Vec<usize> = (0..sec_rows.len()).collect();
    idx.sort_by_key(|&i| (sec_rows[i].sd, i));
    let cash_rows: Vec<&HRow> = idx.iter().map(|&i| &sec_rows[i]).filter(|r| r.act != Act::Split).collect();
    let mut next = 0usize;
    let mut proceeds = Rat::zero();
    let mut costs = opening.as_ref().map(|o| o.1.clone()).unwrap_or(Rat::zero());
    let mut roc = Rat::zero();
    let mut gains = Rat::zero();
    let mut acb: BTreeMap<String, Rat> = BTreeMap::new();
    if let Some((_, c)) = &opening { acb.insert("default".into(), c.clone()); }
    let mut bal: BTreeMap<String, Rat> = BTreeMap::new();
    if let Some((s, _)) = &opening { bal.insert("default".into(), s.clone()); }
    let mut flagged = false;
    let mut k = 0usize;
    let mut checked = 0usize;
    while k < tool.len() {
        let t = &tool[k];
        if t.auto { return Err(format!("row #{k}: automatic adjustment without a preceding sale")); }
        if t.act != Act::Split {
            let Some(r) = cash_rows.get(next) else { return Err(format!("row #{k}: tool shows more rows than the input has")); };
            next += 1;
            if r.act != t.act || affiliate_id(&r.af).0 != t.af || r.sd != t.sd { return Err(format!("harness alignment: tool row #{k} ({:?} {} {}) vs input row ({:?} {} {})", t.act, t.af, t.sd, r.act, r.af, r.sd)); }
            let m = r.to_mrow();
            match r.act {
                Act::Buy => costs = costs.add(&m.shares.mul(&m.price).mul(&m.rate)).add(&m.comm.mul(&m.comm_rate)),
                Act::Sell => proceeds = proceeds.add(&m.shares.mul(&m.price).mul(&m.rate)).sub(&m.comm.mul(&m.comm_rate)),
                Act::Roc => { let held = bal.get(&t.af).cloned().unwrap_or(Rat::zero()); roc = roc.add(&m.price.mul(&held).mul(&m.rate)); }
                _ => {}
            }
        }
        if let Some(g) = &t.gain { gains = gains.add(g); }
        if t.flagged { flagged = true; }
        if let Some(a) = &t.acb { acb.insert(t.af.clone(), a.clone()); }
        bal.insert(t.af.clone(), t.share_bal.clone());
        // the adjustments that belong to this sale
        let denied = t.sfl.abs();
        let mut adj_sum = Rat::zero();
        let mut recipients: BTreeSet<String> = BTreeSet::new();
        let sale_k = k;
        k += 1;
        while k < tool.len() && tool[k].auto {
            let a = &tool[k];
            if a.af.ends_with("(R)") || a.acb.is_none() { return Err(format!("row #{k}: automatic adjustment addressed to registered affiliate {}", a.af)); }
            adj_sum = adj_sum.add(a.acb_delta.as_ref().unwrap_or(&Rat::zero()));
            recipients.insert(a.af.clone());
            acb.insert(a.af.clone(), a.acb.clone().unwrap());
            k += 1;
        }
        if adj_sum.gt(&denied.add(&tol)) { return Err(format!("after sale row #{sale_k}: adjustments ({}) exceed the denied loss ({})", adj_sum, denied)); }
        if !recipients.is_empty() {
            // recipients must have acquired within 30 days of the sale
            let sale_sd = tool[sale_k].sd;
            for rcp in &recipients {
                let bought = sec_rows.iter().any(|r| r.act == Act::Buy && affiliate_id(&r.af).0 == *rcp && (r.sd - sale_sd).whole_days().abs() <= 30);
                if !bought { return Err(format!("after sale row #{sale_k}: {rcp} receives an adjustment without having acquired shares within 30 days of {sale_sd}")); }
            }
            if recipients.len() >= 2 { obs.nt("several-recipients"); }
        }
        if !tool[sale_k].sfl.is_zero() { if let Some((n, d)) = &tool[sale_k].ratio { if n != d { obs.nt("partial-denial"); } else { obs.class("full-denial"); } } }
        // tiny losses that the tool snaps to zero: the model-free identity sees them as at most 1e-10 each
        if flagged { obs.class("stopped-at-potentially-over-applied"); break; }
        let held: Rat = acb.values().fold(Rat::zero(), |x, y| x.add(y));
        let rhs = proceeds.sub(&costs).add(&roc).add(&held);
        if !gains.close(&rhs, &tol) {
            return Err(format!("identity broken after row #{sale_k} ({:?} by {} settling {}): gains so far {} but proceeds {} - costs {} + RoC {} + cost base held {} = {} (difference {})", tool[sale_k].act, tool[sale_k].af, tool[sale_k].sd, gains, proceeds, costs, roc, held, rhs, gains.sub(&rhs)));
        }
        checked += 1;
    }
    if checked >= 8 { obs.class("prefixes>=8"); }
    Ok(())
}

pub fn check(case: &LedgerCase, obs: &mut Obs) -> Verdict {
    // a third of the histories are handed over as two or three files (same row order)
    let files = case.files_maybe_split();
    let csv_joined: String = if files.len() == 1 { files[0].1.clone() } else { files.iter().map(|(n, t)| format!("--- {n}\n{t}")).collect() };
    let csv = &csv_joined;
    let res = match run_deltas(&files, &case.run_opts()) {
        Ok(r) => r,
        Err(RunErr::Panic(p)) => return classify_panic(&p, csv),
        Err(RunErr::Run(e)) => return Verdict::Skip(format!("run-level-error:{}", e.split_whitespace().take(3).collect::<Vec<_>>().join("_"))),
        Err(RunErr::BadInit(e)) => return Verdict::Fail(e),
    };
    let mut any = false;
    for sec in case.secs() {
        let rows = case.sec_rows(&sec);
        let Some(tool) = res.get(&sec) else { return Verdict::Fail(format!("security {sec} missing\n{csv}")); };
        if tool.err.is_some() { obs.class("tool-rejects(skip-sec)"); continue; } // the property quantifies over error-free histories
        let n = normalize_all(&tool.deltas);
        if let Err(e) = identity(&rows, case.opening_for(&sec), &n, obs) { return Verdict::Fail(format!("{sec}: {e}\nopening={:?}\n{csv}", case.opening)); }
        // second half of the statement: split in proportion to end-of-window holdings (reference model)
        let model = model_for(&rows, case.opening_for(&sec));
        if model.err.is_none() {
            let what = CmpWhat { shares: false, acb: false, gain: false, sfl: true, ratio: false, adjustments: true };
            if let Err((e, at)) = crate::cmp::compare_at(&model.rows, &n, false, &what) { return ledger_mismatch_verdict(&sec, &format!("apportioning differs from pro-rata end-of-window holdings: {e}"), at, &rows, &model, csv); }
        }
        any = true;
    }
    if !any { return Verdict::Skip("no-accepted-security".into()); }
    // the gains the identity is about are the ones the report totals: each accepted security's footer total = sum of its rows' gains
    let rr = match crate::observe::run_render(&files, &case.run_opts(), true, false) { Ok(r) => r, Err(RunErr::Panic(p)) => return classify_panic(&p, csv), Err(_) => return Verdict::Fail(format!("render run failed where the delta run succeeded\n{csv}")) };
    for sec in case.secs() {
        let Some(tool) = res.get(&sec) else { continue };
        if tool.err.is_some() { continue; }
        let sum = tool.deltas.iter().filter_map(|d| d.capital_gain.as_ref()).fold(Rat::zero(), |a, g| a.add(&Rat::from_decimal(g)));
        let Some(t) = rr.res.security_tables.get(&sec) else { return Verdict::Fail(format!("no table for {sec}")); };
        let snap = crate::snapshot::TableSnap::of(t);
        if let Some((total, _)) = crate::snapshot::footer_gains(&snap) { if !total.close(&sum, &tol9()) { return Verdict::Fail(format!("{sec}: the table's total capital gain is {total}, its rows' capital gains add up to {sum}\nopening={:?}\n{csv}", case.opening)); } }
        else if !sum.is_zero() { return Verdict::Fail(format!("{sec}: cannot read the table's total although rows carry gains ({sum})\n{csv}")); }
    }
    Verdict::Pass
}

pub fn def() -> PropDef {
    let mut d = PropDef::new("C03", "histories of non-registered affiliates without manual superficial-loss entries (ledger generator and window scenarios, biased to several buying affiliates and to sales inside windows). After every transaction (with its automatic adjustments) the identity  sum(gains) = sum(net proceeds) - sum(purchase costs incl. opening ACB) + sum(RoC) + sum(ACB held)  is evaluated in exact arithmetic from the INPUT rows' cash flows and the tool's rows, up to the first sale flagged potentially over-applied; for every sale the adjustments sum to at most the denied amount, go only to non-registered affiliates that acquired within 30 days, and are pro rata to end-of-window holdings (reference model). Non-trivial = a superficial sale with >= 2 recipient affiliates, or a partial (ratio < 1) denial. Distinct = distinct case content.");
    d.assumptions = vec!["tolerance 1e-9 on the identity (the tool snaps sub-1e-10 amounts)", "RoC cash is per-share amount x the tool's own share balance before the row"];
    d.subs.push(Box::new(Sub::<LedgerCase> { name: "identity", cases_quick: 40_000, cases_thorough: 1_000_000, strategy: Box::new(identity_strategy), to_json: LedgerCase::to_json, from_json: LedgerCase::from_json, check }));
    d.subs.push(Box::new(Sub::<LedgerCase> { name: "windows", cases_quick: 40_000, cases_thorough: 1_000_000, strategy: Box::new(window_strategy), to_json: LedgerCase::to_json, from_json: LedgerCase::from_json, check }));
    d
}
