//! C10 — a summary CSV reproduces the history it replaces (round trip through text).
use super::common::*;
use super::PropDef;
use crate::bigrat::{tol9, Rat};
use crate::cmp::{normalize_all, NRow};
use crate::engine::{known_or_fail, Obs, Sub, Tier, Verdict};
use crate::gen::GenParams;
use crate::model::Act;
use crate::observe::{run_deltas, run_summary, RunErr, SummaryErr};
use json::JsonValue;
use proptest::prelude::*;
use std::collections::BTreeMap;
use time::{Date, Duration};

#[derive(Clone, Debug)]
pub struct SummaryCase { pub ledger: LedgerCase, pub cut: Date, pub annual: bool }

impl SummaryCase {
    fn to_json(&self) -> JsonValue { let mut j = self.ledger.to_json(); j["cut"] = self.cut.to_string().into(); j["annual"] = self.annual.into(); j }
    fn from_json(v: &JsonValue) -> Option<SummaryCase> { Some(SummaryCase { ledger: LedgerCase::from_json(v)?, cut: crate::gen::parse_date(v["cut"].as_str()?)?, annual: v["annual"].as_bool()? }) }
}

fn strategy(tier: Tier) -> BoxedStrategy<SummaryCase> {
    let mut p = GenParams::ledger();
    p.max_rows = tier.pick(12, 24);
    p.manual_sfla = false; // manual entries without a declared loss are the user's own business
    p.usd_norate = false;
    let ledger = ledger_strategy(p, 2);
    let mut sp = super::c02::scen_params();
    sp.max_events = 6;
    let scen = super::c02::scenario_strategy(sp);
    // a year whose gains and losses cancel exactly (sell k above cost by d, sell k below cost by d, no purchase near the loss)
    let cancel = (0usize..3, 0usize..2, 0usize..3, 0usize..2, any::<bool>(), any::<bool>()).prop_map(|(ni, pi, di, ki, spouse, more)| {
        use crate::gen::{ymd, HRow};
        let (n, p, d, k) = ([30i64, 50, 100][ni], ["10", "12.5"][pi], ["1", "2", "0.5"][di], [5i64, 10][ki]);
        let (pr, dr) = (Rat::parse(p).unwrap(), Rat::parse(d).unwrap());
        let af = if spouse { "Spouse" } else { "" };
        let mk = |y: i32, m: u8, day: u8, act: Act, sh: i64, px: &Rat| { let dt = ymd(y, m, day); let mut r = HRow::new("FOO", dt, dt, act); r.shares = sh.to_string(); r.price = px.to_decimal_string(10).unwrap(); r.af = af.to_string(); r };
        let mut rows = vec![mk(2019, 2, 4, Act::Buy, n, &pr), mk(2019, 3, 11, Act::Sell, k, &pr.add(&dr)), mk(2019, 6, 17, Act::Sell, k, &pr.sub(&dr))];
        if more { rows.push(mk(2020, 2, 3, Act::Sell, k, &pr.add(&dr).add(&dr))); }
        rows.push(mk(2020, 9, 1, Act::Buy, 5, &pr));
        rows.push(mk(2020, 10, 13, Act::Sell, 8, &pr.add(&Rat::one())));
        if !spouse { let mut r = mk(2019, 4, 1, Act::Buy, 7, &pr); r.af = "Spouse".into(); rows.insert(2, r); }
        LedgerCase { rows, opening: vec![], tags: vec!["year-netting-to-zero".into()] }
    });
    // an affiliate that starts years after the history does, next to one with a net loss in the year before (annual summaries date their
    // generated rows by year)
    let late = (0usize..3, 0usize..3, any::<bool>(), any::<bool>(), 0usize..3).prop_map(|(gi, li, swap, more, yi)| {
        use crate::gen::{ymd, HRow};
        let (gap, loss_px) = ([1i32, 2, 3][gi], ["8", "7.5", "9.99"][li]);
        let (early, late_af) = if swap { ("Spouse", "") } else { ("", "Spouse") };
        let y0 = [2012i32, 2016, 2018][yi];
        let mk = |af: &str, y: i32, m: u8, d: u8, act: Act, sh: i64, px: &str| { let dt = ymd(y, m, d); let mut r = HRow::new("FOO", dt, dt, act); r.shares = sh.to_string(); r.price = px.to_string(); r.af = af.to_string(); r };
        let yl = y0 + gap; // the late starter's first year; the early holder's loss falls in the year before
        let mut rows = vec![mk(early, y0, 3, 5, Act::Buy, 100, "10"), mk(early, yl - 1, 6, 3, Act::Sell, 20, loss_px), mk(late_af, yl, 2, 10, Act::Buy, 50, "9")];
        if more { rows.push(mk(early, yl, 5, 4, Act::Sell, 10, "12")); }
        rows.push(mk(late_af, yl + 1, 3, 1, Act::Sell, 10, "11"));
        rows.push(mk(early, yl + 1, 4, 1, Act::Sell, 10, "12"));
        LedgerCase { rows, opening: vec![], tags: vec!["affiliate-starting-years-later".into()] }
    });
    // scenarios some of whose sales carry a declared superficial loss (also forced ones, and the forced 0 = "not superficial")
    let mut dp = super::c02::scen_params();
    dp.max_events = 6;
    let declared = super::c02::declared_strategy_for(dp);
    (prop_oneof![4 => ledger, 4 => scen, 1 => cancel.boxed(), 2 => declared, 1 => late.boxed()], any::<u16>(), 0usize..12, any::<bool>()).prop_map(|(ledger, ix, off, annual)| {
        let mut dates: Vec<Date> = ledger.rows.iter().map(|r| r.sd).collect(); dates.sort(); dates.dedup();
        let base = if dates.is_empty() { crate::gen::ymd(2020, 1, 1) } else { dates[(ix as usize * dates.len()) >> 16] };
        let cut = base + Duration::days([0i64, -1, 1, 29, 30, 31, -29, -30, -31, 5, 400, -400][off]);
        SummaryCase { ledger, cut, annual }
    }).boxed()
}

fn last_status(rows: &[NRow]) -> BTreeMap<String, (Rat, Option<Rat>)> { let mut m = BTreeMap::new(); for r in rows { m.insert(r.af.clone(), (r.share_bal.clone(), r.acb.clone())); } m }

fn check(c: &SummaryCase, obs: &mut Obs) -> Verdict {
    let l = &c.ledger;
    if l.rows.is_empty() { return Verdict::Skip("empty".into()); }
    let files = l.files();
    let csv = &files[0].1;
    let opts = l.run_opts();
    let full = match run_deltas(&files, &opts) { Ok(r) => r, Err(RunErr::Panic(p)) => return classify_panic(&p, csv), Err(_) => return Verdict::Skip("full-run-error".into()) };
    if full.values().any(|s| s.err.is_some()) { return Verdict::Skip("history-not-error-free".into()); }
    let today = l.rows.iter().map(|r| r.sd).max().unwrap().max(c.cut) + Duration::days(100);
    let summ = match run_summary(&files, &opts, c.cut, c.annual, today) {
        Ok(s) => s,
        Err(SummaryErr::Panic(p)) => return classify_panic(&p, csv),
        Err(SummaryErr::General(e)) => return Verdict::Fail(format!("summary of an error-free history fails: {e}\ncut {} annual {}\n{csv}", c.cut, c.annual)),
        Err(SummaryErr::Sec(m)) => return Verdict::Fail(format!("summary of an error-free history fails: {:?}\ncut {} annual {}\n{csv}", m, c.cut, c.annual)),
        Err(SummaryErr::BadInit(e)) => return Verdict::Fail(e),
    };
    let post_rows: Vec<crate::gen::HRow> = l.rows.iter().filter(|r| r.sd > c.cut).cloned().collect();
    let mut inputs: Vec<(String, String)> = vec![];
    if summ.n_rows > 0 { inputs.push(("summary.csv".into(), summ.csv.clone())); }
    inputs.push(("later.csv".into(), crate::gen::to_csv(&post_rows)));
    let ctx = || format!("cut {} annual {} opening {:?}\n--- full history\n{csv}--- summary.csv\n{}--- later rows\n{}", c.cut, c.annual, l.opening, summ.csv, inputs.last().unwrap().1);
    // the opening position is part of what the summary replaces
    // an opening position is replaced by the summary exactly when some row of the default affiliate of that
    // security was summarised away (fewer of its Buy/Sell/RoC rows are kept verbatim than settle up to the cut)
    let mut o2 = opts.clone();
    o2.symbol_base = l.opening.iter().filter(|(sym, _, _)| {
        let n_pre = l.rows.iter().filter(|r| &r.sec == sym && r.sd <= c.cut && matches!(r.act, Act::Buy | Act::Sell | Act::Roc) && crate::model::affiliate_id(&r.af).0 == "default").count();
        let mut rdr = csv::ReaderBuilder::new().has_headers(true).flexible(true).from_reader(summ.csv.as_bytes());
        let hdr: Vec<String> = rdr.headers().map(|h| h.iter().map(|x| x.to_string()).collect()).unwrap_or_default();
        let col = |n: &str| hdr.iter().position(|h| h == n);
        let (cs, cm, ca, cact) = (col("security"), col("memo"), col("affiliate"), col("action"));
        let n_keep = rdr.records().flatten().filter(|r| cs.and_then(|i| r.get(i)) == Some(sym.as_str()) && matches!(cact.and_then(|i| r.get(i)), Some("Buy") | Some("Sell") | Some("RoC")) && !cm.and_then(|i| r.get(i)).map(|m| m.starts_with("Summary") || m.ends_with("gain summary (sell)")).unwrap_or(false) && ca.and_then(|i| r.get(i)).map(|a| a.is_empty() || a.eq_ignore_ascii_case("default")).unwrap_or(true)).count();
        let mut rdr2 = csv::ReaderBuilder::new().has_headers(true).flexible(true).from_reader(summ.csv.as_bytes());
        let has_summary_row = rdr2.records().flatten().any(|r| cs.and_then(|i| r.get(i)) == Some(sym.as_str()) && cm.and_then(|i| r.get(i)).map(|m| m.starts_with("Summary")).unwrap_or(false) && ca.and_then(|i| r.get(i)).map(|a| a.is_empty() || a.eq_ignore_ascii_case("default")).unwrap_or(true));
        !(n_pre > n_keep || has_summary_row)
    }).map(|(s, n, c)| format!("{s}:{n}:{c}")).collect();
    let known = |sec: &str, detail: String| -> Verdict {
        let rows: Vec<crate::gen::HRow> = l.sec_rows(sec);
        if rows.iter().any(risky_split) { return known_or_fail("R5", detail); }
        Verdict::Fail(detail)
    };
    let rerun = match run_deltas(&inputs, &o2) { Ok(r) => r, Err(RunErr::Panic(p)) => return classify_panic(&p, &ctx()), Err(RunErr::Run(e)) => { let sec = l.secs()[0].clone(); return known(&sec, format!("feeding the summary plus the later rows fails as a whole: {e}\n{}", ctx())); } Err(RunErr::BadInit(e)) => return Verdict::Fail(e) };
    let tol = tol9();
    // K3 (root cause, observed directly): a yearly 'gain summary (sell)' row of the summary is itself hit by the superficial-loss rule in the re-run
    // ... by an acquisition that is a row of the history itself (kept verbatim, or settling after the cut): the summary's own generated
    // purchases are dated a year before its first yearly sale and can never be the cause - if one is, that is a different defect
    let k3: Vec<String> = rerun.iter().filter(|(_, r)| r.deltas.iter().any(|d| d.tx.memo.ends_with("gain summary (sell)") && d.is_superficial_loss()
        && r.deltas.iter().any(|b| matches!(b.tx.action_specifics, acb::portfolio::TxActionSpecifics::Buy(_)) && (b.tx.settlement_date - d.tx.settlement_date).whole_days().abs() <= 30 && !b.tx.memo.starts_with("Summary")))).map(|(s, _)| s.clone()).collect();
    let known = |sec: &str, detail: String| -> Verdict {
        if c.annual && k3.iter().any(|s| s == sec) { return known_or_fail("F-10-K3", detail); }
        let rows: Vec<crate::gen::HRow> = l.sec_rows(sec);
        if rows.iter().any(risky_split) { return known_or_fail("R5", detail); }
        Verdict::Fail(detail)
    };
    for (sec, fr) in &full {
        let f_all = normalize_all(&fr.deltas);
        let empty = crate::observe::SecResult { deltas: vec![], err: None };
        let rr = rerun.get(sec).unwrap_or(&empty);
        if let Some(e) = &rr.err {
            // K4 (root cause, read off the input): the summary re-writes the split rows of the summarised period in another form (a split
            // for everyone as one row per affiliate; a Default-only split without an affiliate cell when no other affiliate is left); a
            // split of the other form dated within a day of it and kept after the cut then trips the tool's duplicate-split guard (F-04d)
            // in the re-run, although the full history has no mixed pair
            let rows: Vec<crate::gen::HRow> = l.sec_rows(sec);
            let k4 = e.contains("Found non-global split") && !super::c04::split_proximity_present(&rows) && rows.iter().any(|g| g.act == Act::Split && g.sd <= c.cut && rows.iter().any(|h| h.act == Act::Split && h.sd > c.cut && (h.td - g.td).whole_days().abs() <= 1));
            // K6 (root cause, read off the full run): the summary states a holding as <shares> bought at <cost base / shares>; where that
            // quotient has no 28-digit decimal form the product falls short of the cost base by a few 1e-28, and a later return of capital
            // that uses up the WHOLE cost base (accepted in the full history, leaving exactly 0) is refused in the re-run by that margin
            let k6 = e.contains("exceeds the current ACB") && {
                let nums: Vec<Rat> = e.split(|ch| ch == '(' || ch == ')').filter_map(|t| Rat::parse(t.trim())).collect();
                let tiny = nums.len() >= 2 && { let d = nums[0].sub(&nums[1]); d.is_pos() && Rat::ratio(1, 1_000_000_000_000i64).gt(&d) };
                let at_cut: Vec<NRow> = f_all.iter().filter(|r| r.sd <= c.cut).cloned().collect();
                let unrepresentable = last_status(&at_cut).values().any(|(bal, acb)| bal.is_pos() && acb.as_ref().map(|a| a.div(bal).to_decimal_string(28).is_none()).unwrap_or(false));
                let uses_up_everything = f_all.iter().any(|r| r.act == Act::Roc && r.sd > c.cut && r.acb.as_ref().map(|a| a.is_zero()).unwrap_or(false));
                tiny && unrepresentable && uses_up_everything
            };
            if k6 { return known_or_fail("F-10-K6", format!("{sec}: the summary plus the later rows is rejected: {e}\n{}", ctx())); }
            if k4 { return known_or_fail("F-10-K4", format!("{sec}: the summary plus the later rows is rejected: {e}\n{}", ctx())); }
            return known(sec, format!("{sec}: the summary plus the later rows is rejected: {e}\n{}", ctx()));
        }
        let r_all = normalize_all(&rr.deltas);
        // rows settling after the cut; split rows of affiliates that hold nothing are ignored on both sides
        let keep = |r: &&NRow| r.sd > c.cut && !(r.act == Act::Split && r.share_bal.is_zero());
        let f_post: Vec<&NRow> = f_all.iter().filter(keep).collect();
        let r_post: Vec<&NRow> = r_all.iter().filter(keep).collect();
        // compare user rows 1:1, automatic adjustments as maps
        let units = |v: &[&NRow]| -> Vec<(NRow, BTreeMap<String, Rat>)> { let mut out: Vec<(NRow, BTreeMap<String, Rat>)> = vec![]; for r in v { if r.auto { if let Some(last) = out.last_mut() { let e = last.1.entry(r.af.clone()).or_insert(Rat::zero()); *e = e.add(r.acb_delta.as_ref().unwrap_or(&Rat::zero())); } continue; } out.push(((*r).clone(), BTreeMap::new())); } out };
        let (fu, ru) = (units(&f_post), units(&r_post));
        if fu.len() != ru.len() { return known(sec, format!("{sec}: {} later rows in the full run, {} in the re-run\n{}", fu.len(), ru.len(), ctx())); }
        for (i, ((x, ax), (y, ay))) in fu.iter().zip(ru.iter()).enumerate() {
            let opt = |p: &Option<Rat>, q: &Option<Rat>| match (p, q) { (None, None) => true, (Some(p), Some(q)) => p.close(q, &tol), _ => false };
            let mut d = vec![];
            if x.act != y.act || x.af != y.af || x.sd != y.sd { d.push(format!("different row: {:?} {} {} vs {:?} {} {}", x.act, x.af, x.sd, y.act, y.af, y.sd)); }
            if !opt(&x.gain, &y.gain) { d.push(format!("capital gain {:?} vs {:?}", x.gain, y.gain)); }
            if !x.sfl.close(&y.sfl, &tol) { d.push(format!("superficial loss {} vs {}", x.sfl, y.sfl)); }
            if !x.share_bal.close(&y.share_bal, &tol) { d.push(format!("share balance {} vs {}", x.share_bal, y.share_bal)); }
            if !opt(&x.acb, &y.acb) { d.push(format!("cost base {:?} vs {:?}", x.acb, y.acb)); }
            let mut keys: Vec<&String> = ax.keys().chain(ay.keys()).collect(); keys.sort(); keys.dedup();
            for k in keys { let (p, q) = (ax.get(k).cloned().unwrap_or(Rat::zero()), ay.get(k).cloned().unwrap_or(Rat::zero())); if !p.close(&q, &tol) { d.push(format!("adjustment to {k}: {p} vs {q}")); } }
            if !d.is_empty() { return known(sec, format!("{sec}: later row {i} ({:?} by {} settling {}) differs between the full run and the re-run from the summary: {}\n{}", x.act, x.af, x.sd, d.join("; "), ctx())); }
        }
        // final holdings per affiliate
        let (lf, lr) = (last_status(&f_all), last_status(&r_all));
        for (af, (s, a)) in &lf {
            let (s2, a2) = lr.get(af).cloned().unwrap_or((Rat::zero(), if af.ends_with("(R)") { None } else { Some(Rat::zero()) }));
            let a_ok = match (a, &a2) { (None, None) => true, (Some(p), Some(q)) => p.close(q, &tol), (Some(p), None) => p.is_zero(), (None, Some(q)) => q.is_zero() };
            if !s.close(&s2, &tol) || !a_ok { return known(sec, format!("{sec}: final holdings of {af}: {} shares / ACB {:?} in the full run, {} / {:?} from the summary\n{}", s, a, s2, a2, ctx())); }
        }
        // annual mode: yearly net gains of the summarised period per non-registered affiliate
        if c.annual {
            let sum_by = |rows: &[NRow]| -> BTreeMap<(String, i32), Rat> { let mut m = BTreeMap::new(); for r in rows.iter().filter(|r| r.sd <= c.cut) { if let Some(g) = &r.gain { let e = m.entry((r.af.clone(), r.sd.year())).or_insert(Rat::zero()); *e = e.add(g); } } m };
            let (yf, yr) = (sum_by(&f_all), sum_by(&r_all));
            let mut keys: Vec<&(String, i32)> = yf.keys().chain(yr.keys()).collect(); keys.sort(); keys.dedup();
            for k in keys { let (p, q) = (yf.get(k).cloned().unwrap_or(Rat::zero()), yr.get(k).cloned().unwrap_or(Rat::zero())); if !p.close(&q, &tol) { return known(sec, format!("{sec}: {} net capital gain of {}: {} in the full run, {} from the summary rows\n{}", k.1, k.0, p, q, ctx())); } }
        }
        // classification
        let near = |d: Date| (d - c.cut).whole_days().abs() <= 30;
        if f_all.iter().any(|r| near(r.sd) && r.act == Act::Sell && r.gain.as_ref().map(|g| g.is_neg()).unwrap_or(false) || near(r.sd) && !r.sfl.is_zero()) { obs.nt("loss-sale-within-30-days-of-the-cut"); }
        if f_all.iter().any(|r| near(r.sd) && r.act == Act::Buy) { obs.nt("acquisition-within-30-days-of-the-cut"); }
        if !f_post.is_empty() { obs.class("has-later-rows"); }
        if f_all.iter().all(|r| r.sd > c.cut) { obs.class("cut-before-first-row"); }
    }
    obs.class(if c.annual { "annual" } else { "simple" });
    if l.rows.iter().any(|r| !r.sfl.is_empty()) { obs.class("declared-superficial-loss-in-history"); if l.rows.iter().any(|r| r.sfl.ends_with('!')) { obs.class("forced-declared-superficial-loss-in-history"); } }
    if summ.warnings.iter().any(|w| w.contains("could not be due to superficial-loss conflicts")) { obs.class("unsummarizable-rows-kept"); }
    Verdict::Pass
}

pub fn def() -> PropDef {
    let mut d = PropDef::new("C10", "error-free generated histories (ledger generator and window scenarios: 1-3 securities, several affiliates incl. registered, splits, loss sales) x a cut date at every interesting position (on / one day before / after any settlement date, +-29/30/31 days around it, before the first and after the last row) x {simple, annual}; 'today' = 100 days after the last row. Round trip through text: summary rows -> write_txs_to_csv -> [summary.csv, original rows settling after the cut] -> second run. The second run must succeed and show, for every later row, the same gain, superficial loss, share balance, ACB and automatic adjustments (1e-9), the same final holdings and ACB per affiliate, and (annual) the same net gain per year and affiliate for the summarised period. Non-trivial = a loss sale or an acquisition within 30 days of the cut. Distinct = distinct case content.");
    d.assumptions = vec!["split rows of affiliates that hold nothing are ignored on both sides", "known findings are keyed on root-cause predicates over the full run's ledger and the cut (K1/K2/K3), not on symptoms"];
    d.subs.push(Box::new(Sub::<SummaryCase> { name: "roundtrip", cases_quick: 75_000, cases_thorough: 1_500_000, strategy: Box::new(strategy), to_json: SummaryCase::to_json, from_json: SummaryCase::from_json, check }));
    d
}
