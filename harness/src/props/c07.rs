//! C07 — results do not depend on how the input rows are laid out (metamorphic: base vs re-layout).
use super::common::*;
use super::PropDef;
use crate::engine::{Obs, Sub, Tier, Verdict};
use crate::gen::{cell, csv_escape, files_from_json, files_json, GenParams, HRow, COLS};
use crate::observe::{run_render, RunErr};
use crate::snapshot::Snap;
use json::JsonValue;
use proptest::prelude::*;
use std::collections::BTreeMap;

#[derive(Clone, Debug)]
pub struct LayoutCase { pub base: LedgerCase, pub files: Vec<(String, String)>, pub costs: bool, pub tags: Vec<String>,
    /// the re-layout also moved trade dates (settlement dates and positions kept) of rows whose conversion does not depend on the trade date
    pub retimed: bool }

impl LayoutCase {
    fn to_json(&self) -> JsonValue { let mut j = self.base.to_json(); j["files"] = files_json(&self.files); j["costs"] = self.costs.into(); j["retimed"] = self.retimed.into(); j }
    fn from_json(v: &JsonValue) -> Option<LayoutCase> { Some(LayoutCase { base: LedgerCase::from_json(v)?, files: files_from_json(&v["files"])?, costs: v["costs"].as_bool().unwrap_or(false), tags: vec![], retimed: v["retimed"].as_bool().unwrap_or(false) }) }
}

/// Admissible permutation: any order that keeps the relative order of rows of one security settling on one date.
pub fn admissible_permutation(rows: &[HRow], keys: &[u16]) -> Vec<HRow> {
    let mut ks: Vec<u32> = rows.iter().enumerate().map(|(i, _)| ((keys[i % keys.len()] as u32) << 10) | (i as u32 & 0x3ff)).collect();
    let mut groups: BTreeMap<(String, time::Date), Vec<usize>> = BTreeMap::new();
    for (i, r) in rows.iter().enumerate() { groups.entry((r.sec.clone(), r.sd)).or_default().push(i); }
    for g in groups.values() { if g.len() > 1 { let mut s: Vec<u32> = g.iter().map(|&i| ks[i]).collect(); s.sort(); for (j, &i) in g.iter().enumerate() { ks[i] = s[j]; } } }
    let mut order: Vec<usize> = (0..rows.len()).collect();
    order.sort_by_key(|&i| ks[i]);
    order.iter().map(|&i| rows[i].clone()).collect()
}

fn header_variant(name: &str, v: u16) -> String {
    match v % 6 { 0 => name.to_string(), 1 => name.to_uppercase(), 2 => format!(" {name} "), 3 => name.split(' ').map(|w| { let mut c = w.chars(); match c.next() { Some(f) => f.to_uppercase().collect::<String>() + c.as_str(), None => String::new() } }).collect::<Vec<_>>().join(" "), 4 => format!("{name}  "), _ => format!("\t{}", name.to_uppercase()) }
}

/// File names: the order files are GIVEN in counts, not their names - most layouts use names whose text order differs from it.
fn file_name(f: usize, v: u16, nfiles: usize) -> String {
    const POOL: [&str; 7] = ["questrade.csv", "ibkr.csv", "9.csv", "10.csv", "Z acct.csv", "a.csv", "2019.csv"];
    match v % 4 { 0 => format!("part{f}.csv"), 1 => format!("part{}.csv", nfiles - f), _ => POOL[(v as usize / 4 + f) % POOL.len()].to_string() }
}

pub fn relayout(rows: &[HRow], seeds: &[u16], tags: &mut Vec<String>) -> Vec<(String, String)> {
    let s = |i: usize| seeds[i % seeds.len()];
    let permuted = if s(0) % 4 == 0 { rows.to_vec() } else { admissible_permutation(rows, &seeds[1..]) };
    if permuted != rows { tags.push("rows-permuted".into()); }
    // partition into 1..5 files, in order
    let nfiles = (1 + (s(1) % 5) as usize).min(permuted.len().max(1));
    let mut cuts: Vec<usize> = (0..nfiles - 1).map(|i| (s(2 + i) as usize * (permuted.len() + 1)) >> 16).collect();
    cuts.sort();
    let mut files = vec![];
    let mut start = 0;
    for f in 0..nfiles {
        let end = if f + 1 == nfiles { permuted.len() } else { cuts[f].max(start) };
        let chunk = &permuted[start..end];
        start = end;
        // columns: drop columns that are entirely empty in this chunk (sometimes), permute, rename
        let mut cols: Vec<String> = COLS.iter().map(|c| c.to_string()).collect();
        if s(10 + f) % 2 == 0 { cols.retain(|c| ["security", "trade date", "settlement date", "action"].contains(&c.as_str()) || chunk.iter().any(|r| !cell(r, c).is_empty())); tags.push("empty-columns-absent".into()); }
        // unknown columns with junk
        let n_unknown = (s(20 + f) % 4) as usize;
        for u in 0..n_unknown { cols.push([["notes", "broker", "Account #", "x"], ["", "broker", "  ", "x"], ["Commission (broker estimate)", "Shares (post-split)", "memo (old)", "x"]][(s(25 + f) % 3) as usize][u].to_string()); }
        if n_unknown > 0 { tags.push("unknown-columns".into()); }
        // permutation
        let mut order: Vec<usize> = (0..cols.len()).collect();
        if s(30 + f) % 3 != 0 { order.sort_by_key(|&i| (seeds[(40 + f * 7 + i) % seeds.len()], i)); tags.push("columns-permuted".into()); }
        let legacy_date = s(50 + f) % 5 == 0;
        let mut text = String::new();
        let hdr: Vec<String> = order.iter().map(|&i| { let c = &cols[i]; let name = if c == "settlement date" && legacy_date { "date".to_string() } else { c.clone() }; csv_escape(&header_variant(&name, s(60 + f + i))) }).collect();
        text += &hdr.join(","); text.push('\n');
        for (ri, r) in chunk.iter().enumerate() {
            let cells: Vec<String> = order.iter().map(|&i| { let c = cols[i].as_str(); if COLS.contains(&c) { let v = cell(r, c); csv_escape(&if s(70 + ri + i) % 7 == 0 && !v.is_empty() && c != "memo" { format!(" {v} ") } else { v }) } else { csv_escape(["junk", "", "12,5", "n/a \"q\"", "#10021", "# c"][(s(80 + ri + i) % 6) as usize]) } }).collect();
            text += &cells.join(","); text.push('\n');
        }
        if s(90 + f) % 3 == 0 { text = text.replace('\n', "\r\n"); tags.push("crlf".into()); }
        files.push((file_name(f, s(95), nfiles), text));
    }
    if files.windows(2).any(|w| w[0].0 > w[1].0) { tags.push("file-names-not-in-order".into()); }
    if nfiles > 1 { tags.push("several-files".into()); }
    files
}

fn strategy(tier: Tier) -> BoxedStrategy<LayoutCase> {
    let mut p = GenParams::ledger();
    p.max_rows = tier.pick(14, 30);
    // a fifth of the inputs are long (21-40 rows): sorting more than 20 rows takes other code paths in the standard library
    let mut long = p.clone(); long.max_rows = 40;
    (prop_oneof![4 => ledger_strategy(p, 1), 1 => ledger_strategy(long, 21)], proptest::collection::vec(any::<u16>(), 64), any::<bool>()).prop_map(|(base, seeds, costs)| {
        let mut tags = vec![];
        // ties between rows settling on one day are broken by position in the input - not by trade date: in a third of the cases the
        // re-layout also moves the trade dates of rows whose figures cannot depend on it (no Bank-of-Canada look-up on that row, not a split)
        let retimed = seeds[63] % 3 == 0;
        // a quarter of the inputs carry memos that span several lines (quoted cells with embedded line breaks), in both layouts
        let mut base = base;
        if seeds[62] % 4 == 0 { for (i, r) in base.rows.iter_mut().enumerate() { if seeds[(i * 5 + 3) % seeds.len()] % 3 != 0 { r.memo = ["bought in\ntwo lots\nsame day", "see note:\n- a\n- b", "line 1\nline 2"][i % 3].to_string(); } } tags.push("multi-line-memos".into()); }
        let mut rows = base.rows.clone();
        if retimed {
            for (i, r) in rows.iter_mut().enumerate() {
                let looks_up = (r.cur.trim().eq_ignore_ascii_case("USD") && r.rate.trim().is_empty()) || (r.ccur.trim().eq_ignore_ascii_case("USD") && r.crate_.trim().is_empty());
                if r.act == crate::model::Act::Split || looks_up { continue; }
                r.td = r.sd - time::Duration::days(((seeds[(i * 3 + 7) % seeds.len()] >> 3) % 4) as i64);
            }
            tags.push("trade-dates-moved".into());
        }
        let files = relayout(&rows, &seeds, &mut tags);
        LayoutCase { base, files, costs, tags, retimed }
    }).boxed()
}

fn check(c: &LayoutCase, obs: &mut Obs) -> Verdict {
    let mut opts = c.base.run_opts();
    // a third of the inputs with two or more Bank-of-Canada look-ups start from the rate cache an earlier run in the middle of the history
    // would have left (both layouts from the same cache): the order in which the rows ask for rates must not matter either
    if c.base.rows.len() % 3 == 1 {
        let mut ds: Vec<time::Date> = c.base.rows.iter().filter(|r| (r.cur.trim().eq_ignore_ascii_case("USD") && r.rate.trim().is_empty()) || (r.ccur.trim().eq_ignore_ascii_case("USD") && r.crate_.trim().is_empty())).map(|r| r.td).collect();
        ds.sort(); ds.dedup();
        if ds.len() >= 2 { opts.stale_cache_until = Some(ds[ds.len() / 2]); obs.class("rate-cache-left-by-an-earlier-run"); }
    }
    let base_files = c.base.files();
    let a = match run_render(&base_files, &opts, true, c.costs) { Ok(r) => r, Err(RunErr::Panic(p)) => return classify_panic(&p, &base_files[0].1), Err(RunErr::Run(e)) => return Verdict::Skip(format!("base-run-error:{}", e.split_whitespace().take(3).collect::<Vec<_>>().join("_"))), Err(RunErr::BadInit(e)) => return Verdict::Fail(e) };
    let all: String = c.files.iter().map(|(n, t)| format!("--- {n}\n{t}")).collect();
    let b = match run_render(&c.files, &opts, true, c.costs) { Ok(r) => r, Err(RunErr::Panic(p)) => return classify_panic(&p, &all), Err(RunErr::Run(e)) => return Verdict::Fail(format!("re-laid-out input fails as a whole ({e}) while the base input runs\nBASE\n{}\nRELAYOUT\n{all}", base_files[0].1)), Err(RunErr::BadInit(e)) => return Verdict::Fail(e) };
    let (mut sa, mut sb) = (Snap::of(&a.res).normalized(), Snap::of(&b.res).normalized());
    if c.retimed { for s in [&mut sa, &mut sb] { for t in s.secs.values_mut() { if let Some(ix) = t.header.iter().position(|h| h.to_lowercase().contains("trade")) { for r in t.rows.iter_mut() { r[ix].clear(); } }
        // messages name a transaction by its trade date
        let mask = |x: &mut String| { let re = regex::Regex::new(r"\d{4}-\d{2}-\d{2}").unwrap(); *x = re.replace_all(x, "<date>").to_string(); };
        for e in t.errors.iter_mut() { mask(e); } for n in t.notes.iter_mut() { mask(n); } } } }
    if let Some(d) = sa.diff(&sb) { return Verdict::Fail(format!("figures differ between base and re-laid-out input: {d}\nopening={:?}\nBASE\n{}\nRELAYOUT\n{all}", c.base.opening, base_files[0].1)); }
    let nfiles = c.files.len();
    let permuted_cols = c.tags.iter().any(|t| t == "columns-permuted");
    let mut same_day = false;
    let mut seen: BTreeMap<(String, time::Date), usize> = BTreeMap::new();
    for r in &c.base.rows { let e = seen.entry((r.sec.clone(), r.sd)).or_insert(0); *e += 1; if *e > 1 { same_day = true; } }
    if nfiles >= 2 && permuted_cols && same_day { obs.nt("several-files+permuted-columns+same-day-rows"); }
    for t in &c.tags { obs.class(t.clone()); }
    if c.base.rows.len() > 20 { obs.class("more-than-20-rows"); }
    if c.costs { obs.class("with-total-costs"); }
    if sa.secs.values().any(|t| !t.errors.is_empty()) { obs.class("some-security-rejected"); }
    Verdict::Pass
}

pub fn def() -> PropDef {
    let mut d = PropDef::new("C07", "a generated input (ledger generator, one file, canonical columns) and a generated re-layout of the same rows: 1-5 files in order (file names mostly NOT in the text order of the order given: reversed numbering, broker-style names), per-file column permutation, header case/padding variants, 0-3 unrecognised columns (named - also like a known column plus a parenthesised note -, or with an empty / blank header cell) with junk cells (including cells starting with '#'), memos starting with '#', '=' or a quote, optional columns absent when empty, legacy 'date' header, padded cells, CRLF line ends, and a random row permutation constrained to keep the relative order of rows of one security settling on one date; in a third of the cases the trade dates of rows without a rate look-up are moved as well (only the trade-date column may change). A third of the inputs with several rate look-ups start (in both layouts) from the rate cache an earlier run in the middle of the history would have left. Every cell of every security table, footer, aggregate table and (in half the cases) the total-costs tables must be identical in full precision; notes compared as multisets. Non-trivial = >= 2 files AND permuted columns AND at least one pair of same-security same-day rows. Distinct = distinct case content.");
    d.assumptions = vec!["the order of notes is C09's business and ignored here"];
    d.subs.push(Box::new(Sub::<LayoutCase> { name: "relayout", cases_quick: 50_000, cases_thorough: 800_000, strategy: Box::new(strategy), to_json: LayoutCase::to_json, from_json: LayoutCase::from_json, check }));
    d
}
