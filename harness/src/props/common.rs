//! Shared case types and helpers for the ledger family of properties.
use crate::bigrat::Rat;
use crate::engine::{known_or_fail, PanicInfo, Verdict};
use crate::gen::{build_history, intent_strategy, GenParams, HRow, Intent};
use crate::observe::RunOpts;
use json::{object, JsonValue};
use proptest::prelude::*;

#[derive(Clone, Debug)]
pub struct LedgerCase { pub rows: Vec<HRow>, pub opening: Vec<(String, String, String)>, pub tags: Vec<String> }

impl LedgerCase {
    pub fn to_json(&self) -> JsonValue {
        object! {
            csv: crate::gen::to_csv(&self.rows),
            rows: self.rows.iter().map(|r| r.to_json()).collect::<Vec<_>>(),
            opening: self.opening.iter().map(|(s, n, c)| format!("{s}:{n}:{c}")).collect::<Vec<_>>(),
            tags: self.tags.iter().filter(|t| t.contains(':')).cloned().collect::<Vec<_>>(),
        }
    }
    pub fn from_json(v: &JsonValue) -> Option<LedgerCase> {
        let rows: Option<Vec<HRow>> = v["rows"].members().map(HRow::from_json).collect();
        let opening: Option<Vec<(String, String, String)>> = v["opening"].members().map(|o| { let s = o.as_str()?; let p: Vec<&str> = s.split(':').collect(); if p.len() == 3 { Some((p[0].to_string(), p[1].to_string(), p[2].to_string())) } else { None } }).collect();
        Some(LedgerCase { rows: rows?, opening: opening?, tags: v["tags"].members().filter_map(|t| t.as_str().map(|s| s.to_string())).collect() })
    }
    pub fn files(&self) -> Vec<(String, String)> { vec![("f0.csv".to_string(), crate::gen::to_csv(&self.rows))] }
    /// The same rows as consecutive chunks in 2 or 3 files (file order = row order), for every third case content; else one file.
    pub fn files_maybe_split(&self) -> Vec<(String, String)> {
        let n = self.rows.len();
        let h = self.rows.iter().map(|r| r.shares.len() + r.price.len() * 3 + r.sd.ordinal() as usize).sum::<usize>();
        if n < 2 || h % 3 != 0 { return self.files(); }
        let k = 2 + (h / 3) % 2;
        let mut out = vec![];
        let mut start = 0;
        for f in 0..k { let end = if f + 1 == k { n } else { (n * (f + 1) / k + (h / 7 + f) % 2).clamp(start, n) }; if end > start { out.push((format!("f{f}.csv"), crate::gen::to_csv(&self.rows[start..end]))); } start = end; }
        out
    }
    pub fn run_opts(&self) -> RunOpts { RunOpts { symbol_base: crate::gen::symbol_base_strings(&self.opening), usd_years: crate::gen::usd_years(&self.rows), date_fmt: None, stale_cache_until: None, forced_over_wrong_cache: false } }
    pub fn opening_for(&self, sec: &str) -> Option<(Rat, Rat)> { self.opening.iter().find(|o| o.0 == sec).map(|o| (Rat::parse(&o.1).unwrap(), Rat::parse(&o.2).unwrap())) }
    pub fn sec_rows(&self, sec: &str) -> Vec<HRow> { self.rows.iter().filter(|r| r.sec == sec).cloned().collect() }
    pub fn secs(&self) -> Vec<String> { let mut v: Vec<String> = self.rows.iter().map(|r| r.sec.clone()).collect(); v.sort(); v.dedup(); v }
}

pub fn ledger_strategy(p: GenParams, min_rows: usize) -> BoxedStrategy<LedgerCase> {
    let max = p.max_rows;
    (intent_strategy(), proptest::collection::vec(intent_strategy(), min_rows..=max))
        .prop_map(move |(head, intents): (Intent, Vec<Intent>)| { let b = build_history(&intents, &p, &head); LedgerCase { rows: b.rows, opening: b.opening, tags: b.tags } })
        .boxed()
}

/// Panic inside acb while checking a property other than C05: known C05 panics are excluded, others fail.
pub fn classify_panic(p: &PanicInfo, csv: &str) -> Verdict {
    for (id, needle) in KNOWN_PANIC_SITES {
        if p.location.contains(needle.0) && p.message.contains(needle.1) { return known_or_fail(id, format!("panic at {} — {}", p.location, first_line(&p.message))); }
    }
    Verdict::Fail(format!("panic inside acb at {}: {}\n{csv}", p.location, first_line(&p.message)))
}
pub fn first_line(s: &str) -> String { s.lines().next().unwrap_or("").chars().take(300).collect() }

/// (finding id, (location substring, message substring)) — each is a C05 finding seen from another property's check.
pub const KNOWN_PANIC_SITES: &[(&str, (&str, &str))] = &[
    // a share balance left at ~1e-28 by rounding (root cause R5) makes ACB / shares overflow
    ("F-05e", ("rust_decimal", "Division overflowed")),
];

/// A split whose factor or its reciprocal has no finite decimal expansion (3-for-1, 3-for-2, 1-for-3, 7-for-3 ...).
pub fn risky_split(r: &HRow) -> bool {
    if r.act != crate::model::Act::Split { return false; }
    let m = r.to_mrow();
    m.split.0.div(&m.split.1).to_decimal_string(28).is_none() || m.split.1.div(&m.split.0).to_decimal_string(28).is_none()
}

/// Root-cause classifiers R1b / R5 for a ledger mismatch located at a loss sale: in exact arithmetic
/// the affiliates hold nothing at the end of the sale's window, or a buying affiliate holds nothing,
/// and a split with a non-terminating factor precedes the end of the window. The tool then sees
/// ~1e-27 shares instead of zero (R1b: residue created by the look-ahead's own restatement across a
/// split inside the window; R5: residue already in the rounded ledger balance), which flips
/// "superficial or not" or sends the whole adjustment to an affiliate that holds nothing.
pub fn zero_residue_class(rows: &[HRow], model: &crate::model::MResult, at: Option<usize>) -> Option<&'static str> {
    let i = at?;
    let m = model.rows.get(i)?;
    let w = m.win.as_ref()?;
    if !(w.held.is_zero() || w.buyers_eop.iter().any(|(_, e)| e.is_zero())) { return None; }
    let end = m.sd + time::Duration::days(30);
    let in_window_after = rows.iter().any(|r| risky_split(r) && r.sd >= m.sd && r.sd <= end);
    let before = rows.iter().any(|r| risky_split(r) && r.sd <= m.sd);
    if in_window_after { Some("R1b") } else if before { Some("R5") } else { None }
}

pub fn ledger_mismatch_verdict(sec: &str, e: &str, at: Option<usize>, rows: &[HRow], model: &crate::model::MResult, detail: &str) -> Verdict {
    if let Some(id) = zero_residue_class(rows, model, at) { return known_or_fail(id, format!("{sec}: {e}\n{detail}")); }
    Verdict::Fail(format!("{sec}: {e}\n{detail}"))
}
