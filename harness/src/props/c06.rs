//! C06 — every total equals the sum of the rows it summarises; rounding is display-only.
use super::common::*;
use super::PropDef;
use crate::bigrat::{tol9, Rat};
use crate::engine::{Obs, Sub, Tier, Verdict};
use crate::gen::{intent_strategy, GenParams};
use crate::observe::{run_csv_writer, run_render, run_text, RunErr};
use crate::snapshot::{aggregate_gains, footer_gains, money_loose, Snap, TableSnap};
use proptest::prelude::*;
use std::collections::BTreeMap;

fn strategy(tier: Tier) -> BoxedStrategy<LedgerCase> {
    let mut p = GenParams::ledger();
    p.max_rows = tier.pick(16, 36);
    p.year_edge = true;
    p.usd_norate = false;
    // (a fifth of those hold share classes of one issuer: symbols equal up to their last dot)
    let mut classes = p.clone();
    classes.secs = vec!["BRK.A", "FOO", "BRK.B"];
    let usual = (prop_oneof![4 => ledger_strategy(p, 2), 1 => ledger_strategy(classes, 2)], intent_strategy(), any::<u8>()).prop_map(|(base, it, m)| {
        // a third of the cases carry one rejected security
        if m % 3 == 0 { if let Some(rc) = super::c04::plant(&base, &it) { return rc.ledger; } }
        base
    });
    // one security realising gains and losses in 8-15 different years (a long column of yearly figures under its table), next to a second one
    let many_years = (8usize..=15, proptest::collection::vec((1i64..40, 0i64..400, any::<bool>()), 15), any::<bool>()).prop_map(|(n, sells, spouse)| {
        use crate::gen::{ymd, HRow};
        use crate::model::Act;
        let af = if spouse { "Spouse" } else { "" };
        let mk = |sec: &str, y: i32, m: u8, d: u8, act: Act, sh: i64, cents: i64| { let dt = ymd(y, m, d); let mut r = HRow::new(sec, dt, dt, act); r.shares = sh.to_string(); r.price = format!("{}.{:02}", cents / 100, cents % 100); r.af = af.to_string(); r };
        let mut rows = vec![mk("FOO", 2001, 2, 5, Act::Buy, 1000, 1000), mk("BAR", 2001, 2, 6, Act::Buy, 10, 333)];
        for (k, (sh, px, late)) in sells.iter().take(n).enumerate() { rows.push(mk("FOO", 2002 + k as i32, if *late { 12 } else { 3 }, 5 + k as u8, Act::Sell, *sh, 800 + *px)); }
        rows.push(mk("BAR", 2010, 6, 1, Act::Sell, 3, 350));
        LedgerCase { rows, opening: vec![], tags: vec!["gains-in-8-or-more-years".into()] }
    });
    prop_oneof![9 => usual, 1 => many_years].boxed()
}

/// All money figures of a cell, in order: "$x", "-$x", "+$x", "(x CUR)".
pub fn tokens(cell: &str) -> Vec<Rat> {
    let mut out = vec![];
    let b: Vec<char> = cell.chars().collect();
    let mut i = 0;
    while i < b.len() {
        if b[i] == '$' {
            let neg = i > 0 && b[i - 1] == '-';
            let mut j = i + 1;
            while j < b.len() && (b[j].is_ascii_digit() || b[j] == '.' || b[j] == ',') { j += 1; }
            let s: String = b[i + 1..j].iter().filter(|c| **c != ',').collect();
            if let Some(v) = Rat::parse(s.trim_end_matches('.')) { out.push(if neg { v.neg() } else { v }); }
            i = j;
        } else if b[i] == '(' && i + 1 < b.len() && b[i + 1].is_ascii_digit() {
            // "(12.5 USD)"
            let mut j = i + 1;
            while j < b.len() && (b[j].is_ascii_digit() || b[j] == '.') { j += 1; }
            if j + 4 < b.len() && b[j] == ' ' && b[j + 1].is_ascii_uppercase() && b[j + 2].is_ascii_uppercase() && b[j + 3].is_ascii_uppercase() && b[j + 4] == ')' {
                let s: String = b[i + 1..j].iter().collect();
                if let Some(v) = Rat::parse(&s) { out.push(v); }
                i = j + 5;
            } else { i += 1; }
        } else { i += 1; }
    }
    out
}

fn all_cells(t: &TableSnap) -> Vec<&String> { t.rows.iter().flat_map(|r| r.iter()).chain(t.footer.iter()).collect() }

fn check(case: &LedgerCase, obs: &mut Obs) -> Verdict {
    // a third of the histories are handed over as two or three files (same row order)
    let files = case.files_maybe_split();
    let csv_joined: String = if files.len() == 1 { files[0].1.clone() } else { files.iter().map(|(n, t)| format!("--- {n}\n{t}")).collect() };
    let csv = &csv_joined;
    let opts = case.run_opts();
    let full = match run_render(&files, &opts, true, true) { Ok(r) => r, Err(RunErr::Panic(p)) => return classify_panic(&p, csv), Err(RunErr::Run(e)) => return Verdict::Skip(format!("run-error:{}", e.split_whitespace().take(3).collect::<Vec<_>>().join("_"))), Err(RunErr::BadInit(e)) => return Verdict::Fail(e) };
    let dflt = match run_render(&files, &opts, false, true) { Ok(r) => r, Err(RunErr::Panic(p)) => return classify_panic(&p, csv), Err(_) => return Verdict::Fail(format!("default-precision run fails where the full-precision run succeeds\n{csv}")) };
    let (sf, sd) = (Snap::of(&full.res), Snap::of(&dflt.res));
    let tol = tol9();
    // (1) sums
    let mut agg_want: BTreeMap<i32, Rat> = BTreeMap::new();
    let mut agg_total = Rat::zero();
    let mut secs_with_gains = 0;
    let mut years_with_gains: std::collections::BTreeSet<i32> = Default::default();
    for (sec, t) in &sf.secs {
        let Some((total, years)) = footer_gains(t) else { return Verdict::Fail(format!("cannot read the footer of table {sec}: {:?}", t.footer)); };
        if !t.errors.is_empty() {
            if !total.is_zero() || !years.is_empty() { return Verdict::Fail(format!("rejected security {sec} shows capital-gain figures {:?}\n{csv}", t.footer)); }
            obs.class("has-rejected-security");
            continue;
        }
        let mut want: BTreeMap<i32, Rat> = BTreeMap::new();
        let mut any = false;
        for r in &t.rows {
            let cell = &r[9];
            if cell == "-" { continue; }
            let first = cell.lines().next().unwrap_or("");
            let Some((_, g, _)) = money_loose(first) else { return Verdict::Fail(format!("cannot read gain cell {cell:?} of {sec}")); };
            let y: i32 = r[2][..4].parse().unwrap_or(0);
            let ty: i32 = r[1][..4].parse().unwrap_or(0);
            if y != ty { obs.nt("trade-and-settlement-in-different-years"); }
            let e = want.entry(y).or_insert(Rat::zero()); *e = e.add(&g);
            any = true;
        }
        if any { secs_with_gains += 1; }
        let got: BTreeMap<i32, Rat> = years.iter().cloned().collect();
        if want.keys().collect::<Vec<_>>() != got.keys().collect::<Vec<_>>() { return Verdict::Fail(format!("table {sec}: years under the table {:?}, years with gain-bearing rows settling in them {:?}\n{csv}", got.keys(), want.keys())); }
        let mut sum = Rat::zero();
        for (y, w) in &want {
            if !w.close(&got[y], &tol) { return Verdict::Fail(format!("table {sec}: year {y} shows {} but its rows settling that year add up to {}\n{csv}", got[y], w)); }
            sum = sum.add(&got[y]);
            let e = agg_want.entry(*y).or_insert(Rat::zero()); *e = e.add(w);
            years_with_gains.insert(*y);
        }
        if !sum.close(&total, &tol) { return Verdict::Fail(format!("table {sec}: total {} but its years add up to {}\n{csv}", total, sum)); }
        agg_total = agg_total.add(&total);
    }
    let Some((since, ayears)) = aggregate_gains(&sf.aggregate) else { return Verdict::Fail("cannot read the aggregate table".into()); };
    let agot: BTreeMap<i32, Rat> = ayears.iter().cloned().collect();
    if agg_want.keys().collect::<Vec<_>>() != agot.keys().collect::<Vec<_>>() { return Verdict::Fail(format!("aggregate table years {:?}, expected {:?}\n{csv}", agot.keys(), agg_want.keys())); }
    let mut asum = Rat::zero();
    for (y, w) in &agg_want { if !w.close(&agot[y], &tol) { return Verdict::Fail(format!("aggregate {y}: shows {} but the error-free securities add up to {}\n{csv}", agot[y], w)); } asum = asum.add(&agot[y]); }
    if !since.close(&asum, &tol) { return Verdict::Fail(format!("'Since inception' {} but the years add up to {}\n{csv}", since, asum)); }
    if years_with_gains.len() >= 8 { obs.class("gains-in-8-or-more-years"); }
    if secs_with_gains >= 2 && years_with_gains.len() >= 2 { obs.nt(">=2-securities-and->=2-years-with-gains"); }
    // (2) default output = full output rounded half away from zero to cents, token by token
    let mut pairs: Vec<(String, &TableSnap, &TableSnap)> = vec![];
    for (sec, t) in &sf.secs { pairs.push((format!("table {sec}"), t, &sd.secs[sec])); }
    pairs.push(("aggregate".into(), &sf.aggregate, &sd.aggregate));
    if let (Some(cf), Some(cd)) = (&sf.costs, &sd.costs) { pairs.push(("total costs".into(), &cf.0, &cd.0)); pairs.push(("yearly max costs".into(), &cf.1, &cd.1)); }
    let mut midpoints = 0;
    for (name, tf, td) in &pairs {
        let (cf, cd) = (all_cells(tf), all_cells(td));
        if cf.len() != cd.len() { return Verdict::Fail(format!("{name}: different shape with and without --print-full-values\n{csv}")); }
        for (a, b) in cf.iter().zip(cd.iter()) {
            let (ta, tb) = (tokens(a), tokens(b));
            if ta.len() != tb.len() { return Verdict::Fail(format!("{name}: cell {a:?} vs {b:?}: different number of figures\n{csv}")); }
            for (x, y) in ta.iter().zip(tb.iter()) {
                let r = x.round_dp_half_away(2);
                if &r != y { return Verdict::Fail(format!("{name}: default output shows {y} where the full-precision figure {x} rounds (half away from zero) to {r}\n   full cell {a:?}\n   default cell {b:?}\n{csv}")); }
                if x.sub(&x.floor_dp(2)).abs() == Rat::ratio(5, 1000) || x.neg().sub(&x.neg().floor_dp(2)).abs() == Rat::ratio(5, 1000) { midpoints += 1; }
            }
        }
    }
    if midpoints > 0 { obs.nt("figure-at-a-.xx5-midpoint"); }
    // (3) the text and CSV front ends show the render model's cells
    let t = match run_text(&files, &opts, true, true) { Ok(t) => t, Err(RunErr::Panic(p)) => return classify_panic(&p, csv), Err(_) => return Verdict::Fail("text run failed".into()) };
    for (name, tf, _) in &pairs { for c in all_cells(tf) { for line in c.lines() { let l = line.trim(); if !l.is_empty() && !t.out.contains(l) { return Verdict::Fail(format!("{name}: text output lacks the render model's cell line {l:?}\n{csv}")); } } } }
    // ... as often as the tables have it (a yearly figure under a table usually recurs in the aggregate table, so presence alone says little)
    {
        let mut want: BTreeMap<&str, usize> = BTreeMap::new();
        for (_, tf, _) in &pairs { for c in all_cells(tf) { for line in c.lines() { let l = line.trim(); if !l.is_empty() { *want.entry(l).or_insert(0) += 1; } } } }
        for (l, n) in want { let got = t.out.matches(l).count(); if got < n { return Verdict::Fail(format!("text output shows the cell line {l:?} {got} times, the tables have it {n} times\n{csv}")); } }
    }
    let w = match run_csv_writer(&files, &opts, true, true) { Ok(t) => t, Err(RunErr::Panic(p)) => return classify_panic(&p, csv), Err(_) => return Verdict::Fail("csv run failed".into()) };
    let mut recs: std::collections::BTreeSet<Vec<String>> = Default::default();
    let mut rdr = csv::ReaderBuilder::new().has_headers(false).flexible(true).from_reader(w.out.as_bytes());
    for rec in rdr.records().flatten() { recs.insert(rec.iter().map(|s| s.to_string()).collect()); }
    for (name, tf, _) in &pairs {
        for r in tf.rows.iter().chain(std::iter::once(&tf.footer)) { if r.is_empty() { continue; } if !recs.contains(r) { return Verdict::Fail(format!("{name}: CSV output lacks the render model's row {:?}\n{csv}", r)); } }
    }
    // (4) --csv-output-dir: each file holds exactly its table (header, rows, footer, notes, errors - nothing else), whatever an earlier
    // run left in the directory: a quarter of the cases write the longer full-precision tables first and the default ones over them
    if csv.bytes().map(|b| b as u32).sum::<u32>() % 4 == 0 {
        use crate::observe::run_csv_dir_runs;
        let dir_err = |e: RunErr| match e { RunErr::Panic(p) => classify_panic(&p, csv), RunErr::Run(e) | RunErr::BadInit(e) => Verdict::Fail(format!("--csv-output-dir run failed: {e}\n{csv}")) };
        let fresh = match run_csv_dir_runs(&[(&files, false, true)], &opts) { Ok((f, _)) => f, Err(e) => return dir_err(e) };
        let recs_of = |text: &str| -> Vec<Vec<String>> { csv::ReaderBuilder::new().has_headers(false).flexible(true).from_reader(text.as_bytes()).records().flatten().map(|r| r.iter().map(|s| s.to_string()).collect()).collect() };
        let mut got: Vec<Vec<Vec<String>>> = fresh.iter().map(|(_, t)| recs_of(t)).collect();
        let mut want: Vec<Vec<Vec<String>>> = pairs.iter().map(|(_, _, td)| {
            let n = td.header.len();
            let pad = |first: String| { let mut v = vec![String::new(); n]; v[0] = first; v };
            let mut v = vec![td.header.clone()];
            v.extend(td.rows.iter().cloned());
            if !td.footer.is_empty() { v.push(td.footer.clone()); }
            v.extend(td.notes.iter().map(|x| pad(x.clone())));
            v.extend(td.errors.iter().map(|x| pad(format!("[!] {x}"))));
            v
        }).collect();
        // every record of every table (header, rows, footer, notes, errors) is in the files, as often as the tables have it; what else the
        // files may carry is the front end's business
        got.sort(); want.sort();
        let mut have: BTreeMap<&Vec<String>, i64> = BTreeMap::new();
        for f in &got { for r in f { *have.entry(r).or_insert(0) += 1; } }
        for t in &want { for r in t { let e = have.entry(r).or_insert(0); *e -= 1; if *e < 0 {
            return Verdict::Fail(format!("--csv-output-dir: the files lack a record of the render model's tables ({} files, {} tables): {:?}\n{csv}", got.len(), want.len(), r));
        } } }
        let again = match run_csv_dir_runs(&[(&files, true, true), (&files, false, true)], &opts) { Ok((f, _)) => f, Err(e) => return dir_err(e) };
        if again != fresh {
            let d = again.iter().zip(fresh.iter()).find(|(a, b)| a != b).map(|(a, b)| format!("{}:\n--- over an earlier full-precision run\n{}\n--- into an empty directory\n{}", a.0, a.1, b.1)).unwrap_or_else(|| "different set of files".into());
            return Verdict::Fail(format!("--csv-output-dir: the files depend on what an earlier run left in the directory: {d}\n{csv}"));
        }
        obs.class("csv-dir-rewritten");
    }
    Verdict::Pass
}

pub fn def() -> PropDef {
    let mut d = PropDef::new("C06", "generated multi-security, multi-year, multi-affiliate inputs (a third with one rejected security; a tenth with one security realising gains in 8-15 different years) rendered with and without --print-full-values and with --total-costs: (1) per error-free security the yearly figures = exact sum of its rows' full-precision gain cells by SETTLEMENT year, total = sum of years, years shown = years with a gain-bearing row; aggregate year = sum over error-free securities, 'Since inception' = sum of years (1e-9); (2) every money figure ($x, -$x, +$x, (x CUR)) of the default rendering equals the corresponding full-precision figure rounded half away from zero to cents, figure by figure, in every table incl. costs; (3) text and CSV front ends show the render model's cells; (4) for a quarter of the cases the real --csv-output-dir front end: the files hold every record of every table (header, rows, footer, notes, errors) as often as the tables have it, and a default-precision run written over the files of a full-precision run leaves the same files as a run into an empty directory. Non-trivial = >= 2 securities and >= 2 years with gains, or a row whose trade and settlement years differ, or a figure at a .xx5 midpoint. Distinct = distinct case content.");
    d.assumptions = vec!["full-precision cells are the figures --print-full-values prints; sums recomputed exactly from them"];
    d.subs.push(Box::new(Sub::<LedgerCase> { name: "totals", cases_quick: 24_000, cases_thorough: 400_000, strategy: Box::new(strategy), to_json: LedgerCase::to_json, from_json: LedgerCase::from_json, check }));
    d
}
