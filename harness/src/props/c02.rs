//! C02 — superficial-loss rule: 30-day window, min(sold, acquired, held) ratio, declared values.
use super::common::*;
use super::PropDef;
use crate::bigrat::Rat;
use crate::cmp::{compare, model_for, normalize_all, CmpWhat};
use crate::engine::{mix, Obs, Stats, Sub, SubDyn, Tier, Verdict};
use crate::gen::{build_scenario, intent_strategy, HRow, Intent, ScenParams, OFFSETS};
use crate::model::{affiliate_id, Act, MResult};
use crate::observe::{run_deltas, RunErr};
use proptest::prelude::*;

pub fn scen_params() -> ScenParams { ScenParams { afs: vec!["", "Spouse", "(R)", "Kid"], max_events: 7, splits: true, roc: true, usd: true, cell: None, tame_numbers: false } }

pub fn scenario_strategy(p: ScenParams) -> BoxedStrategy<LedgerCase> {
    let maxe = p.max_events;
    (intent_strategy(), proptest::collection::vec(intent_strategy(), 1..=3), proptest::collection::vec(intent_strategy(), 0..=maxe))
        .prop_map(move |(head, pre, ev): (Intent, Vec<Intent>, Vec<Intent>)| { let b = build_scenario(&head, &pre, &ev, &p); LedgerCase { rows: b.rows, opening: b.opening, tags: b.tags } })
        .boxed()
}

fn window_strategy(_t: Tier) -> BoxedStrategy<LedgerCase> { scenario_strategy(scen_params()) }

/// Classify every loss sale of the model by where acquisitions fall around it.
pub fn classify_windows(rows: &[HRow], model: &MResult, obs: &mut Obs) {
    // chronological order of the input rows as the model sees them
    let mut idx: Vec<usize> = (0..rows.len()).collect();
    idx.sort_by_key(|&i| (rows[i].sd, i));
    let pos: std::collections::BTreeMap<usize, usize> = idx.iter().enumerate().map(|(p, &i)| (i, p)).collect();
    for m in &model.rows {
        if m.act != Act::Sell || m.raw_gain.is_none() { continue; }
        let Some(src) = m.src else { continue };
        let sale = &rows[src];
        let mut any_in = false;
        for (i, r) in rows.iter().enumerate() {
            let off = (r.sd - sale.sd).whole_days();
            if off.abs() > 31 || i == src { continue; }
            let before = pos[&i] < pos[&src];
            match r.act {
                Act::Buy => {
                    any_in = true;
                    let b = match off { -31 => "-31".to_string(), -30 => "-30".into(), -29..=-1 => "-29..-1".into(), 0 => if before { "0-before".into() } else { "0-after".into() }, 1..=29 => "+1..+29".into(), 30 => "+30".into(), 31 => "+31".into(), _ => "?".into() };
                    let buyer = if affiliate_id(&r.af).1 { "registered" } else if affiliate_id(&r.af).0 == m.af { "seller" } else { "other" };
                    obs.class(format!("acq-offset:{b}"));
                    obs.class(format!("cell:{b}/{buyer}"));
                }
                Act::Split if off.abs() <= 30 => obs.class("split-in-window"),
                Act::Sell if off.abs() <= 30 && !before => obs.class("later-sale-in-window"),
                _ => {}
            }
        }
        if any_in { obs.nt("loss-sale-with-acquisition-within-31-days"); }
        if let Some(l) = m.limiting { obs.class(format!("limited-by:{l}")); }
        obs.class(if m.sfl.is_zero() { "loss-not-superficial" } else if m.ratio.as_ref().map(|(n, d)| n == d).unwrap_or(false) { "fully-superficial" } else { "partially-superficial" });
        if m.flagged { obs.class("potentially-over-applied"); }
    }
}

pub fn check_ledger_vs_model(case: &LedgerCase, obs: &mut Obs, what: &CmpWhat, classify: fn(&[HRow], &MResult, &mut Obs)) -> Verdict {
    // a third of the histories are handed over as two or three files (same row order)
    let files = case.files_maybe_split();
    let csv_joined: String = if files.len() == 1 { files[0].1.clone() } else { files.iter().map(|(n, t)| format!("--- {n}\n{t}")).collect() };
    let csv = &csv_joined;
    let res = match run_deltas(&files, &case.run_opts()) {
        Ok(r) => r,
        Err(RunErr::Panic(p)) => return classify_panic(&p, csv),
        Err(RunErr::Run(e)) => return Verdict::Skip(format!("run-level-error:{}", e.split_whitespace().take(3).collect::<Vec<_>>().join("_"))),
        Err(RunErr::BadInit(e)) => return Verdict::Fail(format!("bad opening position from the harness: {e}")),
    };
    let mut any = false;
    for sec in case.secs() {
        let rows = case.sec_rows(&sec);
        let model = model_for(&rows, case.opening_for(&sec));
        let Some(tool) = res.get(&sec) else { return Verdict::Fail(format!("security {sec} missing\n{csv}")); };
        if tool.err.is_some() { obs.class("tool-rejects(skip-sec)"); continue; }
        if model.err.is_some() { obs.class("model-rejects-tool-accepts(skip-sec)"); continue; }
        let n = normalize_all(&tool.deltas);
        if let Err((e, at)) = crate::cmp::compare_at(&model.rows, &n, false, what) { return ledger_mismatch_verdict(&sec, &e, at, &rows, &model, &format!("opening={:?}\n{csv}", case.opening)); }
        classify(&rows, &model, obs);
        any = true;
    }
    if !any { return Verdict::Skip("no-accepted-security".into()); }
    Verdict::Pass
}

pub fn check_window(case: &LedgerCase, obs: &mut Obs) -> Verdict { check_ledger_vs_model(case, obs, &CmpWhat::all(), classify_windows) }

// ---------- declared superficial losses ----------
fn declared_strategy(_t: Tier) -> BoxedStrategy<LedgerCase> { declared_strategy_for(scen_params()) }

/// Scenarios some of whose sales carry a declared superficial loss (near the computed value, far from it, forced with '!', or a forced 0 =
/// "not superficial").
pub fn declared_strategy_for(mut p: ScenParams) -> BoxedStrategy<LedgerCase> {
    p.afs = vec!["", "Spouse", "Kid"]; // declared values on registered sellers are ignored silently; not generated (DESIGN 3.4)
    (scenario_strategy(p), proptest::collection::vec(any::<u16>(), 8)).prop_map(|(mut case, picks)| {
        // give some sales a declared value derived from the computed one; assigned in chronological
        // order, re-running the model each time because a declared sale suppresses its adjustments
        let mut chrono: Vec<usize> = (0..case.rows.len()).collect();
        chrono.sort_by_key(|&i| (case.rows[i].sd, i));
        let mut k = 0;
        for src in chrono {
            if case.rows[src].act != Act::Sell || affiliate_id(&case.rows[src].af).1 { continue; }
            let pk = picks[k % picks.len()]; k += 1;
            if pk % 3 == 0 { continue; }
            let model = model_for(&case.rows, None);
            let Some(m) = model.rows.iter().find(|m| m.src == Some(src)) else { break }; // history already rejected earlier
            let computed = m.computed_sfl.clone();
            let is_loss = m.raw_gain.is_some();
            let delta = crate::gen::pick(pk, &["0", "0.0005", "-0.0005", "0.0009", "-0.0009", "0.0011", "-0.0011", "0.01", "-0.01", "-25", "0"]);
            let mut force = pk % 5 == 0;
            let mut v = computed.add(&Rat::parse(delta).unwrap());
            if v.is_pos() { v = computed.clone(); }
            // the user's "this loss is not superficial" override: a forced 0 on a loss the tool computes as superficial
            if pk % 13 == 4 && is_loss { v = Rat::zero(); force = true; }
            // 10-dp representable; if the computed value does not terminate, truncate it (moves it by < 1e-10)
            let v10 = if v.is_neg() { v.neg().floor_dp(10).neg() } else { v.floor_dp(10) };
            if !is_loss && pk % 7 != 0 { continue; } // declared value on a sale without loss: sometimes
            case.rows[src].sfl = format!("{}{}", v10.to_decimal_string(10).unwrap(), if force { "!" } else { "" });
        }
        case
    }).boxed()
}

fn classify_declared(rows: &[HRow], model: &MResult, obs: &mut Obs) {
    classify_windows(rows, model, obs);
    for m in &model.rows {
        let Some(src) = m.src else { continue };
        if rows[src].sfl.is_empty() { continue; }
        let v = Rat::parse(rows[src].sfl.trim_end_matches('!')).unwrap();
        let diff = m.computed_sfl.sub(&v).abs();
        let force = rows[src].sfl.ends_with('!');
        obs.nt(format!("declared:{}{}", if diff.is_zero() { "equal" } else if diff.le(&Rat::ratio(1, 1000)) { "within-0.001" } else { "beyond-0.001" }, if force { "-forced" } else { "" }));
    }
}

fn check_declared(case: &LedgerCase, obs: &mut Obs) -> Verdict {
    // accept/reject outcome for declared values is part of the property: compare it too
    // a third of the histories are handed over as two or three files (same row order)
    let files = case.files_maybe_split();
    let csv_joined: String = if files.len() == 1 { files[0].1.clone() } else { files.iter().map(|(n, t)| format!("--- {n}\n{t}")).collect() };
    let csv = &csv_joined;
    let res = match run_deltas(&files, &case.run_opts()) {
        Ok(r) => r,
        Err(RunErr::Panic(p)) => return classify_panic(&p, csv),
        Err(RunErr::Run(e)) => return Verdict::Skip(format!("run-level-error:{}", e.split_whitespace().take(3).collect::<Vec<_>>().join("_"))),
        Err(RunErr::BadInit(e)) => return Verdict::Fail(e),
    };
    let rows = &case.rows;
    let model = model_for(rows, None);
    let Some(tool) = res.get("FOO") else { return Verdict::Fail(format!("security missing\n{csv}")); };
    let n = normalize_all(&tool.deltas);
    match (&model.err, &tool.err) {
        (None, None) => { if let Err((e, at)) = crate::cmp::compare_at(&model.rows, &n, false, &CmpWhat::all()) { return ledger_mismatch_verdict("FOO", &e, at, rows, &model, csv); } }
        (Some(me), Some(msg)) => {
            if let Err(e) = compare(&model.rows, &n, true, &CmpWhat::all()) { return Verdict::Fail(format!("prefix before rejection: {e}\n{csv}")); }
            use crate::model::Cause::*;
            let undeclared: Vec<HRow> = rows.iter().map(|r| { let mut c = r.clone(); c.sfl.clear(); c }).collect();
            if let Some(id) = super::c04::residue_class(rows, &model_for(&undeclared, None), msg) { let _ = id; return Verdict::Skip("rounding-residue-rejection(R5/R1b)".into()); }
            // (the words are the tool's business; a rejection on account of the declared value will speak of the superficial loss)
            let lower = msg.to_lowercase();
            let ok = match me.cause { SflMismatch | SflOnNonLoss => lower.contains("superficial") || lower.contains("sfl"), _ => true };
            if !ok { return Verdict::Fail(format!("rejected for another reason than the model's ({:?}): {msg}\n{csv}", me.cause)); }
            obs.class(format!("rejected:{:?}", me.cause));
        }
        (None, Some(msg)) => { if super::c04::is_chain_residue(rows, &model, msg) { return Verdict::Skip("rounding-residue-rejection(R5/R1b)".into()); } return Verdict::Fail(format!("declared values are all within 0.001 of the computed ones (or forced) but the history was rejected: {msg}\n{csv}")); }
        (Some(me), None) => return Verdict::Fail(format!("a declared superficial loss should have been rejected ({:?} at row {}) but was accepted\n{csv}", me.cause, me.src)),
    }
    classify_declared(rows, &model, obs);
    Verdict::Pass
}

// ---------- deterministic sweep over (offset, before/after, buyer) cells ----------
fn cell_sub(off: i64, before: bool, buyer: usize, n: u64) -> Sub<LedgerCase> {
    let mut p = scen_params();
    p.cell = Some((off, before, buyer));
    p.max_events = 4;
    Sub::<LedgerCase> { name: "cells", cases_quick: n, cases_thorough: n, strategy: Box::new(move |_| scenario_strategy(p.clone())), to_json: LedgerCase::to_json, from_json: LedgerCase::from_json, check: check_window }
}

fn sweep(tier: Tier, seed: u64, idx: u64, of: u64, stats: &mut Stats) {
    let per_cell = tier.pick(60, 1500);
    let mut k = 0u64;
    for off in OFFSETS.iter().copied() {
        for before in [true, false] {
            if off != 0 && !before { continue; }
            for buyer in 0..3usize {
                k += 1;
                if k % of != idx { continue; }
                let s = cell_sub(off, before, buyer, per_cell);
                s.run_worker(tier, mix(seed, &["cell"], k), per_cell, stats, "C02");
                *stats.extra.entry("sweep_cells".into()).or_insert(0.into()) = (stats.extra.get("sweep_cells").and_then(|v| v.as_u64()).unwrap_or(0) + 1).into();
            }
        }
    }
}

pub fn def() -> PropDef {
    let mut d = PropDef::new("C02", "window scenarios: earlier purchases by 1-4 affiliates (one registered), an anchor sale priced for a loss, and 0-7 further events (acquisitions, later sales, global or per-affiliate splits, RoC) at offsets drawn from {-61,-32,-31,-30,-29,-15,-1,0 before/after in file order,+1,+15,+29,+30,+31,+32,+61} days; plus a deterministic sweep giving every (offset, file order, buyer = seller/other/registered) cell a fixed number of random fillings; plus scenarios whose sales carry a declared superficial loss = computed +/- {0,0.0005,0.0009,0.0011,0.01,25} with or without '!'. Compared with the exact reference model: denied amount, ratio (as a value), reported gain, automatic adjustments, accept/reject for declared values. Non-trivial = a loss sale with at least one acquisition settling within 31 days of it, or a sale carrying a declared value. Distinct = distinct case content.");
    d.assumptions = vec!["amounts compared within 1e-9 (the tool snaps amounts within 1e-10 of a cent to the cent)", "declared values on a registered affiliate's sale are not generated (the tool ignores them; the property does not settle the expectation)", "exactly 0.001 away from the computed value is not generated unless representable; 0.0009/0.0011 bracket the threshold"];
    d.subs.push(Box::new(Sub::<LedgerCase> { name: "window", cases_quick: 75_000, cases_thorough: 1_200_000, strategy: Box::new(window_strategy), to_json: LedgerCase::to_json, from_json: LedgerCase::from_json, check: check_window }));
    d.subs.push(Box::new(Sub::<LedgerCase> { name: "declared", cases_quick: 36_000, cases_thorough: 500_000, strategy: Box::new(declared_strategy), to_json: LedgerCase::to_json, from_json: LedgerCase::from_json, check: check_declared }));
    d.subs.push(Box::new(cell_sub(0, true, 0, 0))); // registered for replay of sweep failures; the sweep itself runs in `extra`
    d.extra = Some(sweep);
    d
}
