//! Property registry.
use crate::engine::{Stats, SubDyn, Tier};

pub mod common;
pub mod c01;
pub mod c02;
pub mod c03;
pub mod c04;
pub mod c05;
pub mod c06;
pub mod c07;
pub mod c08;
pub mod c09;
pub mod c10;
pub mod c11;
pub mod c12;
pub mod c13;
pub mod c14;
pub mod c15;
pub mod c16;
pub mod c17;
pub mod c18;
pub mod c19;
pub mod c20;

pub struct PropDef {
    pub id: &'static str,
    pub level: &'static str,
    pub rule: &'static str,
    pub assumptions: Vec<&'static str>,
    pub subs: Vec<Box<dyn SubDyn>>,
    /// non-proptest part (exhaustive sweeps, binary-level runs): (tier, seed, worker idx, workers, stats)
    pub extra: Option<fn(Tier, u64, u64, u64, &mut Stats)>,
    pub replay_repeats: usize,
    pub max_workers: usize,
    pub abort_is_violation: bool,
    pub exhaustive: bool,
}

impl PropDef {
    pub fn new(id: &'static str, rule: &'static str) -> PropDef {
        PropDef { id, level: "exploration", rule, assumptions: vec![], subs: vec![], extra: None, replay_repeats: 1, max_workers: 16, abort_is_violation: false, exhaustive: false }
    }
}

pub fn registry() -> Vec<PropDef> {
    vec![c01::def(), c02::def(), c03::def(), c04::def(), c05::def(), c06::def(), c07::def(), c08::def(), c09::def(), c10::def(), c11::def(), c12::def(), c13::def(), c14::def(), c15::def(), c16::def(), c17::def(), c18::def(), c19::def(), c20::def()]
}
