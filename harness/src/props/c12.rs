//! C12 — USD rows use the Bank of Canada rate of the trade date or the last one before it.
use super::PropDef;
use crate::engine::{guard, Obs as O, Sub, Tier, Verdict};
use crate::fxfake::{reference, ymd, Calendar, FakeBank, Obs, MALFORMED};
use acb::fx::io::{InMemoryRatesCache, RateLoader};
use acb::util::rw::WriteHandle;
use json::JsonValue;
use proptest::prelude::*;
use std::cell::RefCell;
use std::rc::Rc;
use time::{Date, Duration, Weekday};

#[derive(Clone, Debug)]
pub struct FxCase { pub cal: Calendar, pub today: Date, pub cutoff: Date, pub lookups: Vec<Date>, pub gap_edges: Vec<Date>,
    /// an earlier run (its today, its look-ups) whose cache the run under test inherits; None = empty cache
    pub earlier_run: Option<(Date, Vec<Date>)> }

impl FxCase {
    pub fn to_json(&self) -> JsonValue { json::object! { calendar: self.cal.to_json(), junk: self.cal.junk_entries, today: self.today.to_string(), cutoff: self.cutoff.to_string(), lookups: self.lookups.iter().map(|d| d.to_string()).collect::<Vec<_>>(), earlier_today: self.earlier_run.as_ref().map(|e| e.0.to_string()), earlier_lookups: self.earlier_run.as_ref().map(|e| e.1.iter().map(|d| d.to_string()).collect::<Vec<_>>()).unwrap_or_default() } }
    pub fn from_json(v: &JsonValue) -> Option<FxCase> {
        let mut cal = Calendar::from_json(&v["calendar"])?; cal.junk_entries = v["junk"].as_bool().unwrap_or(false);
        let d = |k: &str| crate::gen::parse_date(v[k].as_str()?);
        Some(FxCase { cal, today: d("today")?, cutoff: d("cutoff")?, lookups: v["lookups"].members().filter_map(|x| x.as_str().and_then(crate::gen::parse_date)).collect(), gap_edges: vec![], earlier_run: d("earlier_today").map(|t| (t, v["earlier_lookups"].members().filter_map(|x| x.as_str().and_then(crate::gen::parse_date)).collect())) })
    }
}

pub fn calendar_strategy() -> BoxedStrategy<(Calendar, Vec<Date>, Date, Date)> {
    (2014i32..=2016, 2i32..=4, proptest::collection::vec(any::<u16>(), 40), proptest::collection::vec((any::<u16>(), 0usize..6), 0..5), proptest::collection::vec((any::<u16>(), 0usize..7), 0..6), any::<u16>(), any::<u8>())
        .prop_map(|(y0, n, hol, gaps, bad, empty_year, flags)| {
            let (first, last) = (ymd(y0, 1, 1), ymd(y0 + n - 1, 12, 31));
            let ndays = (last - first).whole_days() as usize + 1;
            let mut cal = Calendar::default();
            cal.junk_entries = flags & 1 == 1;
            let mut d = first;
            let mut k = 0usize;
            while d <= last {
                let weekend = matches!(d.weekday(), Weekday::Saturday | Weekday::Sunday);
                let h = hol[k % hol.len()].wrapping_mul(31).wrapping_add((k as u16).wrapping_mul(7919));
                if !weekend && h % 25 != 0 {
                    let x = (h as u32).wrapping_mul(2654435761u32.wrapping_add(k as u32)) % 3500;
                    // both series on both sides of parity (the noon rate was below 1 in 2011-2012; the daily CAD->USD value exceeds 1 whenever the Canadian dollar is the stronger one)
                    let t = if d.year() >= 2017 { 6500 + x * 46 / 35 } else { 9000 + x * 46 / 35 };
                    let v = format!("{}.{:04}", t / 10000, t % 10000);
                    cal.days.insert(d, Obs::Published(v));
                }
                d = d.next_day().unwrap(); k += 1;
            }
            let mut edges = vec![];
            for (pos, li) in gaps {
                let start = first + Duration::days(((pos as usize * ndays) >> 16) as i64);
                let len = [6i64, 7, 8, 9, 12, 5][li];
                // make the gap exact: the day before and the day after are published
                for i in 0..len { cal.days.remove(&(start + Duration::days(i))); }
                let (b, a) = (start - Duration::days(1), start + Duration::days(len));
                for e in [b, a] { if e >= first && e <= last && !cal.days.contains_key(&e) { cal.days.insert(e, Obs::Published(if e.year() >= 2017 { "0.7777".into() } else { "1.2222".into() })); } }
                edges.push(b); edges.push(a);
            }
            // a gap across New Year
            if flags & 2 == 2 { let ny = ymd(y0 + 1, 1, 1); for i in -4..5 { cal.days.remove(&(ny + Duration::days(i))); } edges.push(ny - Duration::days(5)); edges.push(ny + Duration::days(5)); }
            // a year without any data
            if empty_year % 9 == 0 { let y = y0 + (empty_year as i32 / 9) % n; let keys: Vec<Date> = cal.days.keys().filter(|d| d.year() == y).cloned().collect(); for k in keys { cal.days.remove(&k); } }
            for (pos, kind) in bad { let dd = first + Duration::days(((pos as usize * ndays) >> 16) as i64); if !matches!(dd.weekday(), Weekday::Saturday | Weekday::Sunday) { cal.days.insert(dd, Obs::Malformed(MALFORMED[kind])); edges.push(dd); } }
            (cal, edges, first, last)
        }).boxed()
}

fn strategy(_t: Tier) -> BoxedStrategy<FxCase> {
    (calendar_strategy(), any::<u16>(), any::<bool>(), proptest::collection::vec((0u8..8, any::<u16>(), -10i64..=10), 8..60)).prop_map(|((cal, edges, first, last), tix, incl_today, picks)| {
        let ndays = (last - first).whole_days() as usize + 1;
        let today = first + Duration::days((60 + ((tix as usize * (ndays + 200 - 60)) >> 16)) as i64);
        let cutoff = if incl_today { today + Duration::days(1) } else { today };
        let mut lookups = vec![];
        for (kind, ix, off) in picks {
            let base = match kind {
                0 | 1 if !edges.is_empty() => edges[ix as usize % edges.len()],
                2 => today,
                3 => ymd(first.year() + (ix as i32 % ((last.year() - first.year()).max(1) + 1)), 1, 1),
                4 => ymd(2017, 1, 1),
                _ => first + Duration::days(((ix as usize * ndays) >> 16) as i64),
            };
            let off = if kind == 2 { off.clamp(-2, 2) } else { off };
            let d = base + Duration::days(off);
            if d.year() >= 1990 && d.year() <= 2030 { lookups.push(d); }
        }
        // a third of the runs inherit the cache of an earlier run (30 days to ~2 years before) that looked up a few dates of its own
        let earlier_run = if tix % 3 == 0 { let back = 30 + (tix as i64 / 3) % 700; let et = today - Duration::days(back); if et > first + Duration::days(30) { Some((et, vec![et - Duration::days(2), et - Duration::days(40), ymd(et.year(), 1, 4)])) } else { None } } else { None };
        FxCase { cal, today, cutoff, lookups, gap_edges: edges, earlier_run }
    }).boxed()
}

fn check(c: &FxCase, obs: &mut O) -> Verdict {
    crate::observe::reset_globals(c.today);
    let requests = Rc::new(RefCell::new(vec![]));
    let bank = FakeBank { cal: c.cal.clone(), cutoff: c.cutoff, requests: requests.clone() };
    let shared: acb::util::rc::RcRefCell<std::collections::HashMap<u32, Vec<acb::fx::DailyRate>>> = acb::util::rc::RcRefCellT::new(std::collections::HashMap::new());
    // half of the inherited caches are the CLI's rates-<year>.csv files in a scratch directory, the others the in-memory cache
    let file_dir: Option<std::path::PathBuf> = match &c.earlier_run { Some((et, _)) if et.ordinal() % 2 == 0 => {
        static N: std::sync::atomic::AtomicU64 = std::sync::atomic::AtomicU64::new(0);
        let base = if std::path::Path::new("/dev/shm").is_dir() { std::path::PathBuf::from("/dev/shm") } else { std::env::temp_dir() };
        let d = base.join(format!("acbverif-c12-{}-{}", std::process::id(), N.fetch_add(1, std::sync::atomic::Ordering::Relaxed)));
        let _ = std::fs::remove_dir_all(&d); let _ = std::fs::create_dir_all(&d); Some(d) } _ => None };
    struct Rm(Option<std::path::PathBuf>);
    impl Drop for Rm { fn drop(&mut self) { if let Some(d) = &self.0 { let _ = std::fs::remove_dir_all(d); } } }
    let _rm = Rm(file_dir.clone());
    let cache = || -> Box<dyn acb::fx::io::RatesCache> { match &file_dir { Some(d) => Box::new(acb::fx::io::CsvRatesCache::new(d.clone(), WriteHandle::empty_write_handle())), None => Box::new(InMemoryRatesCache { rates_by_year: shared.clone() }) } };
    if let Some((et, looks)) = &c.earlier_run {
        // the earlier run, by the product itself, over what the bank had published by then
        acb::util::date::set_todays_date_for_test(*et);
        let bank0 = FakeBank { cal: c.cal.clone(), cutoff: *et, requests: Rc::new(RefCell::new(vec![])) };
        let mut l0 = RateLoader::new_cached_remote_loader(false, cache(), Box::new(bank0), WriteHandle::empty_write_handle());
        for d in looks { let _ = guard(|| l0.blocking_get_effective_usd_cad_rate(*d)); }
        acb::util::date::set_todays_date_for_test(c.today);
        obs.class("inherits-the-cache-of-an-earlier-run");
        if file_dir.is_some() { obs.class("inherited-cache-is-rates-csv-files"); }
    }
    let mut loader = RateLoader::new_cached_remote_loader(false, cache(), Box::new(bank), WriteHandle::empty_write_handle());
    for d in &c.lookups {
        let want = reference(&c.cal, c.cutoff, c.today, *d);
        let got = match guard(|| loader.blocking_get_effective_usd_cad_rate(*d)) { Ok(g) => g, Err(p) => return Verdict::Fail(format!("panic looking up {d}: {}", p.sig())) };
        match (&want, &got) {
            (Ok((wd, wr)), Ok(g)) => {
                if g.foreign_to_local_rate != *wr || g.date != *wd { return Verdict::Fail(format!("look-up of {d} (today {}): tool uses the rate of {} = {}, the bank's calendar says {} = {}", c.today, g.date, g.foreign_to_local_rate, wd, wr)); }
                if g.foreign_to_local_rate.is_zero() { return Verdict::Fail(format!("look-up of {d}: zero placeholder returned")); }
            }
            (Err(()), Err(e)) => { if e.trim().is_empty() { return Verdict::Fail("empty error message".into()); } }
            (Ok((wd, wr)), Err(e)) => return Verdict::Fail(format!("look-up of {d} (today {}): the rate of {wd} = {wr} applies, but the tool reports an error: {e}", c.today)),
            (Err(()), Ok(g)) => return Verdict::Fail(format!("look-up of {d} (today {}): no rate was published within the preceding seven days (or the date is today/future without a rate), but the tool uses {} from {}", c.today, g.foreign_to_local_rate, g.date)),
        }
        // classification
        let on_day = c.cal.published(*d).is_some() && *d < c.cutoff;
        if !on_day { obs.nt("look-up-on-unpublished-day"); let mut gap = 0; let mut x = *d; while gap < 12 && !(c.cal.published(x).is_some() && x < c.cutoff) { x = x - Duration::days(1); gap += 1; } obs.class(format!("days-back-to-last-rate:{}", if gap >= 9 { "9+".to_string() } else { gap.to_string() })); }
        if (*d - c.today).whole_days().abs() <= 1 { obs.nt("within-1-day-of-today"); }
        if let Ok((wd, _)) = &want { if wd.year() != d.year() { obs.nt("look-back-crosses-year-boundary"); } }
        if matches!(c.cal.days.get(d), Some(Obs::Malformed(_))) { obs.class("malformed-observation-on-the-day"); }
        obs.class(if d.year() >= 2017 { "daily-series(inverted)" } else { "noon-series" });
    }
    // only the documented series may be requested, one request per year
    let reqs = requests.borrow();
    let mut seen = std::collections::BTreeSet::new();
    for u in reqs.iter() { if !seen.insert(u.clone()) { return Verdict::Fail(format!("the same year was requested twice in one run: {u}")); } if !(u.contains("/IEXE0101/") || u.contains("/FXCADUSD/")) { return Verdict::Fail(format!("unexpected series requested: {u}")); } }
    Verdict::Pass
}

// ---------- row level: which rate does a row get ----------
#[derive(Clone, Debug)]
pub struct RowCase { pub fx: FxCase, pub rows: Vec<(String, String, String, String, String)> } // (trade date, currency, rate, commission currency, commission rate)

fn row_strategy(_t: Tier) -> BoxedStrategy<RowCase> {
    // (codes that merely start like USD / CAD are other currencies: USDC, USDT, CADX)
    let cur = prop_oneof![3 => Just(""), 1 => Just("CAD"), 8 => Just("USD"), 2 => Just("usd"), 1 => Just("EUR"), 1 => Just("USDC"), 1 => Just("CADX"), 1 => Just("Usdt")];
    let rate = prop_oneof![5 => Just(""), 1 => Just("1"), 1 => Just("1.0"), 2 => Just("1.2345"), 1 => Just("0.5")];
    let ccur = prop_oneof![8 => Just(""), 1 => Just("CAD"), 3 => Just("USD"), 1 => Just("EUR"), 1 => Just("USDC"), 1 => Just("CADX")];
    (strategy(Tier::Quick), proptest::collection::vec((any::<u16>(), cur, rate.clone(), ccur, rate), 1..5)).prop_map(|(fx, rs)| {
        let past: Vec<Date> = fx.lookups.iter().filter(|d| **d < fx.today).cloned().collect();
        let rows = rs.into_iter().map(|(ix, c, r, cc, cr)| { let d = if ix % 8 == 0 && !fx.lookups.is_empty() { fx.lookups[ix as usize % fx.lookups.len()] } else if past.is_empty() { fx.today - Duration::days(30) } else { past[ix as usize % past.len()] }; (d.to_string(), c.to_string(), r.to_string(), cc.to_string(), cr.to_string()) }).collect();
        RowCase { fx, rows }
    }).boxed()
}

fn check_rows(c: &RowCase, obs: &mut O) -> Verdict {
    use acb::portfolio::TxActionSpecifics;
    crate::observe::reset_globals(c.fx.today);
    let mut csv = String::from("security,trade date,settlement date,action,shares,amount/share,commission,currency,exchange rate,commission currency,commission exchange rate\n");
    // half of the inputs write their dates as year-day-month and say so with --date-fmt (a day <= 12 then also reads as a month)
    let ydm = c.fx.lookups.len() % 2 == 0;
    let show = |td: &str| -> String { if ydm { let p: Vec<&str> = td.split('-').collect(); format!("{}-{}-{}", p[0], p[2], p[1]) } else { td.to_string() } };
    for (td, cur, rate, ccur, crate_) in &c.rows { let d = show(td); csv += &format!("FOO,{d},{d},Buy,1,10,1,{cur},{rate},{ccur},{crate_}\n"); }
    let parse_opts = acb::portfolio::io::tx_csv::TxCsvParseOptions { date_format: if ydm { Some(acb::util::date::parse_dyn_date_format("[year]-[day]-[month]").expect("date format")) } else { None } };
    if ydm { obs.class("dates-written-year-day-month"); }
    let bank = FakeBank { cal: c.fx.cal.clone(), cutoff: c.fx.cutoff, requests: Rc::new(RefCell::new(vec![])) };
    let loader = RateLoader::new_cached_remote_loader(false, Box::new(InMemoryRatesCache::new()), Box::new(bank), WriteHandle::empty_write_handle());
    let res = guard(|| async_std::task::block_on(acb::app::run_acb_app_to_delta_models(vec![acb::util::rw::DescribedReader::from_string("rows.csv".into(), csv.clone())], Default::default(), &parse_opts, loader, WriteHandle::empty_write_handle())));
    let res = match res { Ok(r) => r, Err(p) => return Verdict::Fail(format!("panic: {}\n{csv}", p.sig())) };
    // expected per row
    let one = rust_decimal::Decimal::ONE;
    let expect = |td: &str, cur: &str, rate: &str| -> Result<rust_decimal::Decimal, String> {
        use std::str::FromStr;
        let cu = cur.to_uppercase();
        if !rate.is_empty() { let r = rust_decimal::Decimal::from_str(rate).unwrap(); if cu.is_empty() { return Err("rate without currency".into()); } if cu == "CAD" && r != one { return Err("CAD rate not 1".into()); } return Ok(r); }
        if cu.is_empty() || cu == "CAD" { return Ok(one); }
        if cu != "USD" { return Err("other currency without rate".into()); }
        reference(&c.fx.cal, c.fx.cutoff, c.fx.today, crate::gen::parse_date(td).unwrap()).map(|x| x.1).map_err(|_| "no bank rate".to_string())
    };
    let mut exp: Vec<Result<(rust_decimal::Decimal, rust_decimal::Decimal), String>> = vec![];
    for (td, cur, rate, ccur, crate_) in &c.rows {
        let t = expect(td, cur, rate);
        let cm = if ccur.is_empty() && crate_.is_empty() { t.clone() } else { expect(td, ccur, crate_) };
        exp.push(match (t, cm) { (Ok(a), Ok(b)) => Ok((a, b)), (Err(e), _) | (_, Err(e)) => Err(e) });
    }
    let any_err = exp.iter().find_map(|e| e.as_ref().err().cloned());
    match (res, any_err) {
        (Err(e), Some(_)) => { if e.trim().is_empty() { return Verdict::Fail("empty error".into()); } obs.nt("run-stops-with-error"); }
        (Err(e), None) => return Verdict::Fail(format!("every row has a usable rate but the run stops: {e}\ntoday {}\n{csv}", c.fx.today)),
        (Ok(_), Some(why)) => return Verdict::Fail(format!("a row has no usable rate ({why}) but the run went on\ntoday {}\n{csv}", c.fx.today)),
        (Ok(m), None) => {
            let Some(r) = m.get("FOO") else { return Verdict::Fail("no result".into()); };
            let deltas = r.deltas_or_partial_deltas();
            if deltas.len() != c.rows.len() { return Verdict::Fail(format!("{} rows in, {} out\n{csv}", c.rows.len(), deltas.len())); }
            // deltas are sorted by settlement date then input order; map back by read index
            for d in deltas {
                let i = d.tx.read_index as usize;
                let (wt, wc) = exp[i].clone().unwrap();
                if let TxActionSpecifics::Buy(b) = &d.tx.action_specifics {
                    if *b.tx_currency_and_rate.exchange_rate != wt { return Verdict::Fail(format!("row {i}: rate {} used, expected {wt}\ntoday {}\n{csv}", b.tx_currency_and_rate.exchange_rate, c.fx.today)); }
                    if *b.commission_currency_and_rate().exchange_rate != wc { return Verdict::Fail(format!("row {i}: commission rate {} used, expected {wc}\ntoday {}\n{csv}", b.commission_currency_and_rate().exchange_rate, c.fx.today)); }
                }
            }
            if c.rows.iter().any(|r| r.1.eq_ignore_ascii_case("USD") && r.2.is_empty()) { obs.nt("usd-row-with-bank-rate"); }
            if c.rows.iter().any(|r| !r.2.is_empty()) { obs.class("explicit-rate"); }
        }
    }
    Verdict::Pass
}

pub fn def() -> PropDef {
    let mut d = PropDef::new("C12", "generated Bank of Canada publication calendars over 2-4 consecutive years starting 2014-2016 (so they span the 2016/2017 series change): weekdays with random holidays, exact gaps of 5,6,7,8,9,12 days, a gap across New Year, optionally a year without data, observations on both sides of parity in both series, malformed observations (zero, negative, text, missing value, wrong types, junk entries), served as valet JSON by a fake HTTP endpoint; 'today' anywhere in the span (remote data up to yesterday or today); a third of the runs inherit the cache of an earlier run of the product (half of those as the CLI's rates-<year>.csv files in a scratch directory, half in memory); 8-60 look-ups per calendar at gap edges +-10 days, year edges, today-2..today+2 and random dates, compared with a 15-line reference function (day's rate, else latest within 7 days before if the date is in the past, else error; daily series inverted with the same Decimal division). A second sub-check feeds rows (USD/CAD/EUR, trade and commission currency, with and without explicit rate) through the application and compares the rate each row got. Non-trivial = look-up on an unpublished day, or within 1 day of today, or whose look-back crosses a year boundary; rows: a USD row that needs the bank rate, or a run that must stop. Distinct = distinct case content.");
    d.assumptions = vec!["the fake endpoint follows the documented valet JSON schema; TLS / HTTP failures are not explored", "observations are served in date order, as the bank does"];
    d.subs.push(Box::new(Sub::<FxCase> { name: "lookup", cases_quick: 36_000, cases_thorough: 1_500_000, strategy: Box::new(strategy), to_json: FxCase::to_json, from_json: FxCase::from_json, check }));
    d.subs.push(Box::new(Sub::<RowCase> { name: "rows", cases_quick: 36_000, cases_thorough: 1_500_000, strategy: Box::new(row_strategy), to_json: |c| { let mut j = c.fx.to_json(); j["rows"] = JsonValue::Array(c.rows.iter().map(|r| JsonValue::Array(vec![r.0.as_str().into(), r.1.as_str().into(), r.2.as_str().into(), r.3.as_str().into(), r.4.as_str().into()])).collect()); j }, from_json: |v| Some(RowCase { fx: FxCase::from_json(v)?, rows: v["rows"].members().map(|r| (r[0].as_str().unwrap_or("").to_string(), r[1].as_str().unwrap_or("").to_string(), r[2].as_str().unwrap_or("").to_string(), r[3].as_str().unwrap_or("").to_string(), r[4].as_str().unwrap_or("").to_string())).collect() }), check: check_rows }));
    d
}
