//! C20 — statement FMV extraction returns every holding once; no page is skipped.
use super::PropDef;
use crate::engine::{guard, known_or_fail, Obs, Stats, Sub, Tier, Verdict};
use acb::peripheral::pdf::LazyPageTextVec;
use acb::peripheral::questrade_statement_fmv_impl::parse_statement_text;
use json::JsonValue;
use proptest::prelude::*;
use rust_decimal::Decimal;
use std::str::FromStr;

// ---------------------------------------------------------------- (a) allocation tables
#[derive(Clone, Debug, PartialEq)]
pub struct Holding { pub desc_lines: Vec<String>, pub alloc: String, pub value: String, pub figures_on_own_line: bool }
#[derive(Clone, Debug)]
pub struct Statement { pub holdings: Vec<Holding>, pub total: String, pub month: (String, u8, i32), pub month_on_earlier_page: bool, pub junk_pages_before: usize, pub pre_text: Vec<String>, pub post_text: Vec<String>, pub total_alloc: String }

fn group_thousands(v: &str) -> String {
    let (i, f) = v.split_once('.').unwrap_or((v, ""));
    let mut out = String::new();
    for (k, c) in i.chars().rev().enumerate() { if k > 0 && k % 3 == 0 { out.push(','); } out.push(c); }
    let i2: String = out.chars().rev().collect();
    if f.is_empty() { i2 } else { format!("{i2}.{f}") }
}

impl Statement {
    pub fn pages(&self) -> Vec<String> {
        // the label's letter case varies between statement vintages
        let label = ["Current month:", "Current month:", "CURRENT MONTH:", "Current Month:"][(self.month.1 as usize + self.month.2 as usize + self.holdings.len()) % 4];
        let month_line = format!("{label} {} {}, {}", self.month.0, self.month.1, self.month.2);
        let mut pages: Vec<String> = vec![];
        if self.month_on_earlier_page { pages.push(format!("Questrade statement\nAccount # 12345678\n{month_line}\nLast month: whatever 1, 2000\n")); }
        for k in 0..self.junk_pages_before { pages.push(format!("Page of other things {k}\nActivity details\n 100.0 shares bought\nTotal 1,234.00\n")); }
        let mut p = String::new();
        if !self.month_on_earlier_page { p += &format!("{month_line}\n"); }
        for l in &self.pre_text { p += l; p.push('\n'); }
        // text extraction breaks and pads the heading in different places
        p += ["Securities Owned\nCombined in (CAD)\n", "Securities Owned Combined in (CAD)\n", "Securities Owned Combined in\n(CAD)\n", "Securities Owned Combined\nin (CAD)\n", "Securities  Owned  Combined  in \t(CAD)\n"][(self.month.2 as usize + self.holdings.len() * 3 + self.junk_pages_before) % 5];
        p += "            ALLOCATION (%)² MARKET VALUE ($)³\n\n";
        for h in &self.holdings {
            let n = h.desc_lines.len();
            for (i, l) in h.desc_lines.iter().enumerate() {
                let bullet = if i == 0 { "■ " } else { "" };
                if i + 1 == n && !h.figures_on_own_line { p += &format!("            {bullet}{l} {} {}\n", h.alloc, group_thousands(&h.value)); } else { p += &format!("            {bullet}{l}\n"); }
            }
            if h.figures_on_own_line { p += &format!("            {} {}\n", h.alloc, group_thousands(&h.value)); }
            p.push('\n');
        }
        p += &format!("            {} {}\n", self.total_alloc, group_thousands(&self.total));
        for l in &self.post_text { p += l; p.push('\n'); }
        pages.push(p);
        pages.push("Last page\nDisclosures 100.0 99\n".into());
        pages
    }
    /// No description line looks like the total row, and no holding's description ends in two bare
    /// numbers while its own figures line looks like the total row.
    pub fn unambiguous(&self) -> bool {
        let total_like = regex::Regex::new(r"^\s*100.00?\s+(\d[0-9,\.]+)\s*$").unwrap();
        let two_numbers_at_end = regex::Regex::new(r"(^|\s)\d[0-9\.]+\s+\d[0-9,\.]*\s*$").unwrap();
        for h in &self.holdings {
            if h.desc_lines.iter().any(|l| total_like.is_match(l)) { return false; }
            let joined = h.desc_lines.join(" ");
            if h.figures_on_own_line && total_like.is_match(&format!("{} {}", h.alloc, group_thousands(&h.value))) && two_numbers_at_end.is_match(&joined) { return false; }
        }
        true
    }
    fn to_json(&self) -> JsonValue {
        json::object! { holdings: self.holdings.iter().map(|h| json::object! { desc_lines: h.desc_lines.clone(), alloc: h.alloc.as_str(), value: h.value.as_str(), own_line: h.figures_on_own_line }).collect::<Vec<_>>(), total: self.total.as_str(), total_alloc: self.total_alloc.as_str(), month: self.month.0.as_str(), day: self.month.1, year: self.month.2, month_on_earlier_page: self.month_on_earlier_page, junk_pages_before: self.junk_pages_before, pre_text: self.pre_text.clone(), post_text: self.post_text.clone(), pages: self.pages() }
    }
    fn from_json(v: &JsonValue) -> Option<Statement> {
        let strs = |x: &JsonValue| -> Vec<String> { x.members().filter_map(|s| s.as_str().map(|t| t.to_string())).collect() };
        Some(Statement { holdings: v["holdings"].members().map(|h| Holding { desc_lines: strs(&h["desc_lines"]), alloc: h["alloc"].as_str().unwrap_or("").into(), value: h["value"].as_str().unwrap_or("").into(), figures_on_own_line: h["own_line"].as_bool().unwrap_or(false) }).collect(), total: v["total"].as_str()?.into(), total_alloc: v["total_alloc"].as_str().unwrap_or("100.0").into(), month: (v["month"].as_str()?.into(), v["day"].as_u8()?, v["year"].as_i32()?), month_on_earlier_page: v["month_on_earlier_page"].as_bool()?, junk_pages_before: v["junk_pages_before"].as_usize()?, pre_text: strs(&v["pre_text"]), post_text: strs(&v["post_text"]) })
    }
}

fn statement_strategy() -> BoxedStrategy<Statement> {
    let word = prop_oneof![Just("ISHARES"), Just("CORE"), Just("S&P"), Just("ETF"), Just("GIC"), Just("BANK"), Just("OF"), Just("CANADA"), Just("INDEX"), Just("(XIU)"), Just("(ZZZZZZ)"), Just("01/01/2025"), Just("4.00%"), Just("1Y"), Just("DUE"), Just("INT"), Just("CPD"), Just("5.000%"), Just("2025"), Just("500"), Just("5.00"), Just("60/40"), Just("U$"), Just("CL-A"), Just("100.0"), Just("7"), Just("ALLOCATION"), Just("MARKET VALUE"), Just("Combined"), Just("Current month:")];
    let line = proptest::collection::vec(word, 1..6).prop_map(|w| w.join(" "));
    let holding = (proptest::collection::vec(line, 1..5), 1u32..999_999_999, any::<bool>(), 0u8..3);
    (proptest::collection::vec(holding, 0..13), any::<u16>(), any::<bool>(), 0usize..3, any::<bool>()).prop_map(|(hs, m, earlier, junk, alt_total)| {
        let n = hs.len();
        let total_cents: u64 = hs.iter().map(|h| h.1 as u64).sum();
        let mut holdings = vec![];
        let mut acc = 0u64;
        for (i, (lines, cents, own, dp)) in hs.into_iter().enumerate() {
            // allocation in tenths of a percent; the last one takes the remainder so they add up to 100.0
            // a quarter of the multi-holding tables are dominated by one holding (any position) that rounds to 100.0 while the others round to 0.0
            let dominant = n >= 2 && (m / 64) % 4 == 0;
            let tenths = if n == 1 { 1000 } else if dominant { if i == (m / 256) as usize % n { 1000 } else { 0 } } else if i + 1 == n { 1000u64.saturating_sub(acc) } else { ((cents as u64 * 1000) / total_cents.max(1)).max(1) };
            acc += tenths;
            let value = match dp { 0 => format!("{}.{:02}", cents / 100, cents % 100), 1 => format!("{}.{}", cents / 100, (cents % 100) / 10), _ => format!("{}.0", cents / 100) };
            // first line must start with a non-numeric token after the bullet (as statements do)
            let mut lines = lines;
            if lines[0].chars().next().map(|c| c.is_ascii_digit()).unwrap_or(false) { lines[0] = format!("SEC {}", lines[0]); }
            holdings.push(Holding { desc_lines: lines, alloc: format!("{}.{}", tenths / 10, tenths % 10), value, figures_on_own_line: own });
        }
        let months = ["January", "February", "March", "april", "MAY", "June", "July", "August", "Sept", "October", "November", "December"];
        let month = (months[m as usize % 12].to_string(), 28 + (m % 3) as u8 % 3, 2015 + (m % 12) as i32);
        Statement { holdings, total: format!("{}.{:02}", total_cents / 100, total_cents % 100), month, month_on_earlier_page: earlier, junk_pages_before: junk, pre_text: { let mut t: Vec<String> = vec!["Investment summary".into(), "Some text 12.5 1,000.00".into()]; match (m / 7) % 4 { 0 => t.push("\u{25a0} Equities \u{25a0} Fixed income \u{25a0} Cash".into()), 1 => t.push("\u{25a0} Note: figures as of month end".into()), _ => {} } t }, post_text: vec!["² Allocation note 100.0 5".into(), "Footer".into()], total_alloc: if alt_total { "100.00".into() } else { "100.0".into() } }
    }).boxed()
}

fn check_table(st: &Statement, obs: &mut Obs) -> Verdict {
    let pages = st.pages();
    let show = || pages.iter().enumerate().map(|(i, p)| format!("--- page {}\n{p}", i + 1)).collect::<Vec<_>>().join("\n");
    let unambiguous = st.unambiguous();
    let r = match guard(|| parse_statement_text(pages.iter())) { Err(p) => return Verdict::Fail(format!("panic in the statement parser: {}\n{}", p.sig(), show())), Ok(r) => r };
    let fail = |msg: String| -> Verdict { if !unambiguous { known_or_fail("F-20b", format!("{msg}\n{}", show())) } else { Verdict::Fail(format!("{msg}\n{}", show())) } };
    let res = match r { Ok(x) => x, Err(e) => return fail(format!("a table in the documented layout is rejected: {e}")) };
    if res.fmvs.len() != st.holdings.len() { return fail(format!("{} holdings listed, {} returned", st.holdings.len(), res.fmvs.len())); }
    for (i, (h, f)) in st.holdings.iter().zip(res.fmvs.iter()).enumerate() {
        let want_desc = h.desc_lines.iter().map(|l| l.trim().to_string()).collect::<Vec<_>>().join(" ");
        if f.security_desc != want_desc || f.allocation != Decimal::from_str(&h.alloc).unwrap() || f.fmv != Decimal::from_str(&h.value).unwrap() { return fail(format!("holding {i}: returned {:?} / {} / {}, listed {:?} / {} / {}", f.security_desc, f.allocation, f.fmv, want_desc, h.alloc, h.value)); }
    }
    if res.total != Decimal::from_str(&st.total).unwrap() { return fail(format!("total {} returned, {} listed", res.total, st.total)); }
    let m = acb::util::date::parse_month(&st.month.0).unwrap();
    if res.month_date.month() != m || res.month_date.day() != st.month.1 || res.month_date.year() != st.month.2 { return Verdict::Fail(format!("month {:?} returned, {:?} stated", res.month_date, st.month)); }
    if st.holdings.iter().any(|h| h.desc_lines.len() >= 2 && h.desc_lines.iter().any(|l| l.chars().any(|c| c.is_ascii_digit()))) { obs.nt("multi-line-description-with-digits"); }
    if st.holdings.len() == 1 { obs.class("single-100%-holding"); }
    if st.holdings.len() >= 2 && st.holdings.iter().skip(1).any(|h| h.alloc == "100.0" && h.figures_on_own_line) { obs.nt("100%-holding-not-listed-first-with-figures-on-own-line"); }
    if st.holdings.is_empty() { obs.class("no-holdings"); }
    if !unambiguous { obs.class("ambiguous-but-parsed-correctly"); }
    if st.month_on_earlier_page { obs.class("month-on-earlier-page"); }
    Verdict::Pass
}

// ---------------------------------------------------------------- (b) page iteration
#[derive(Clone, Debug)]
pub struct PageCase { pub n: u32, pub hints: Vec<Vec<u32>> }

pub fn make_pdf(n: u32) -> lopdf::Document {
    use lopdf::content::{Content, Operation};
    use lopdf::{dictionary, Document, Object, Stream};
    let mut doc = Document::with_version("1.5");
    let pages_id = doc.new_object_id();
    let font_id = doc.add_object(dictionary! { "Type" => "Font", "Subtype" => "Type1", "BaseFont" => "Courier" });
    let resources_id = doc.add_object(dictionary! { "Font" => dictionary! { "F1" => font_id } });
    let mut kids: Vec<Object> = vec![];
    for k in 1..=n {
        let content = Content { operations: vec![Operation::new("BT", vec![]), Operation::new("Tf", vec!["F1".into(), 12.into()]), Operation::new("Td", vec![72.into(), 720.into()]), Operation::new("Tj", vec![Object::string_literal(format!("THIS IS PAGE {k} OF THE DOCUMENT"))]), Operation::new("ET", vec![])] };
        let content_id = doc.add_object(Stream::new(dictionary! {}, content.encode().unwrap()));
        let page_id = doc.add_object(dictionary! { "Type" => "Page", "Parent" => pages_id, "Contents" => content_id });
        kids.push(page_id.into());
    }
    doc.objects.insert(pages_id, Object::Dictionary(dictionary! { "Type" => "Pages", "Kids" => kids, "Count" => n as i64, "Resources" => resources_id, "MediaBox" => vec![0.into(), 0.into(), 595.into(), 842.into()] }));
    let catalog_id = doc.add_object(dictionary! { "Type" => "Catalog", "Pages" => pages_id });
    doc.trailer.set("Root", catalog_id);
    doc
}

fn page_strategy() -> BoxedStrategy<PageCase> {
    (0u32..=14, proptest::collection::vec(proptest::collection::vec(0u32..=17, 0..5), 0..4)).prop_map(|(n, hints)| PageCase { n, hints }).boxed()
}

/// The chunk helper alone (pure): every page 1..n in exactly... at least one group, nothing out of range, no empty group.
fn check_chunks(n: u32, hints: &Vec<Vec<u32>>) -> Result<Vec<Vec<u32>>, String> {
    let groups = guard(|| LazyPageTextVec::safe_page_chunks_with_remainder_pn(n, hints)).map_err(|p| format!("panic: {}", p.sig()))?;
    let mut seen = std::collections::BTreeSet::new();
    for g in &groups { if g.is_empty() { return Err(format!("empty group in {:?}", groups)); } for p in g { if *p == 0 || *p > n { return Err(format!("page {p} requested of a {n}-page document ({:?})", groups)); } seen.insert(*p); } }
    if seen.len() as u32 != n { return Err(format!("pages {:?} of 1..={n} are never visited ({:?})", (1..=n).filter(|p| !seen.contains(p)).collect::<Vec<_>>(), groups)); }
    Ok(groups)
}

fn check_pages(c: &PageCase, obs: &mut Obs) -> Verdict {
    let groups = match check_chunks(c.n, &c.hints) { Ok(g) => g, Err(e) => return Verdict::Fail(format!("{e}\nn={} hints={:?}", c.n, c.hints)) };
    // through a real document and the iterator
    let doc = make_pdf(c.n);
    let r = guard(|| {
        let mut lazy = LazyPageTextVec::new(std::sync::Arc::new(doc), false);
        let v: Vec<(u32, String)> = lazy.optimized_iter(groups.clone()).map(|(p, t)| (p, (*t).clone())).collect();
        (v, lazy.last_error.clone())
    });
    let descending = groups.iter().any(|g| g.windows(2).any(|w| w[0] > w[1])) || { let flat: Vec<u32> = groups.iter().flatten().cloned().collect(); flat.windows(2).any(|w| w[0] > w[1]) };
    let (yielded, last_err) = match r {
        Err(p) => { let detail = format!("panic while iterating pages: {}\nn={} hints={:?} groups={:?}", p.sig(), c.n, c.hints, groups); if descending && p.message.contains("index out of bounds") || p.message.contains("called `Option::unwrap()` on a `None` value") { return known_or_fail("F-20a", detail); } return Verdict::Fail(detail); }
        Ok(x) => x,
    };
    if let Some(e) = last_err { return Verdict::Fail(format!("page extraction error on a generated PDF: {e}")); }
    let mut seen = std::collections::BTreeSet::new();
    for (p, text) in &yielded {
        if *p == 0 || *p > c.n { return Verdict::Fail(format!("page {p} yielded from a {}-page document", c.n)); }
        if !text.contains(&format!("THIS IS PAGE {p} OF")) { return Verdict::Fail(format!("page {p} yielded with the text of another page: {:?}\nn={} hints={:?}", text.trim(), c.n, c.hints)); }
        seen.insert(*p);
    }
    if seen.len() as u32 != c.n { return Verdict::Fail(format!("pages {:?} were skipped\nn={} hints={:?} groups={:?}", (1..=c.n).filter(|p| !seen.contains(p)).collect::<Vec<_>>(), c.n, c.hints, groups)); }
    let flat: Vec<u32> = c.hints.iter().flatten().cloned().collect();
    let dup = { let mut s = std::collections::BTreeSet::new(); flat.iter().any(|p| !s.insert(*p)) };
    if c.n >= 2 && (flat.iter().any(|p| *p == 0 || *p > c.n) || dup || descending) { obs.nt("hint-out-of-range-duplicated-or-descending"); }
    if dup { obs.class("duplicate-hint"); }
    if descending { obs.class("descending-hint"); }
    Verdict::Pass
}

/// Exhaustive sweep of the chunk helper within small bounds.
fn exhaustive_chunks(tier: Tier, _seed: u64, idx: u64, of: u64, stats: &mut Stats) {
    let (max_n, max_val) = tier.pick((6u32, 8u32), (9u32, 11u32));
    // all hint lists with <= 2 groups of <= 3 entries over 0..=max_val
    let mut groups: Vec<Vec<u32>> = vec![vec![]];
    for a in 0..=max_val { groups.push(vec![a]); for b in 0..=max_val { groups.push(vec![a, b]); for c in 0..=max_val { groups.push(vec![a, b, c]); } } }
    let mut count = 0u64;
    for n in 0..=max_n {
        if (n as u64) % of != idx % of && of > 1 && (n as u64 % of) != idx { continue; }
        for (i, g1) in groups.iter().enumerate() {
            // second group: a thinner slice to keep the sweep in seconds
            for g2 in groups.iter().step_by(if tier == Tier::Quick { 37 } else { 5 }).chain(std::iter::once(&vec![])) {
                let hints: Vec<Vec<u32>> = [g1.clone(), g2.clone()].into_iter().filter(|g| !g.is_empty() || i % 11 == 0).collect();
                if let Err(e) = check_chunks(n, &hints) { stats.failures.push(crate::engine::Failure { prop: "C20".into(), sub: "pages".into(), message: format!("{e}\nn={n} hints={:?}", hints), case: json::object! { n: n, hints: hints.iter().map(|g| JsonValue::Array(g.iter().map(|x| (*x).into()).collect())).collect::<Vec<_>>() } }); return; }
                count += 1;
            }
        }
        crate::engine::heartbeat();
    }
    *stats.extra.entry("exhaustive_chunk_cases".into()).or_insert(0.into()) = (stats.extra.get("exhaustive_chunk_cases").and_then(|v| v.as_u64()).unwrap_or(0) + count).into();
    stats.evaluations += count;
}

pub fn def() -> PropDef {
    let mut d = PropDef::new("C20", "(table) generated Questrade statements: 0-12 holdings with 1-4 description lines built from words, dates, percentages, codes and bare numbers, figures on the last description line or on their own line, a single 100% holding, a 100.0% holding in any position among 0.0% ones, thousands separators, values with 0-2 decimals, surrounding page text containing numbers, the month line on the same or an earlier page, 0-2 unrelated pages before; parse_statement_text must return exactly the listed holdings in order with allocation, value, total and month. Cases are labelled unambiguous / ambiguous by a stated predicate. (pages) page counts 0-14 x hint groups over 0..17 (out of range, duplicated, unsorted, empty): safe_page_chunks_with_remainder_pn, then LazyPageTextVec::optimized_iter over a real PDF generated with lopdf (page k carries 'THIS IS PAGE k'); every yielded page must exist, carry its own text, and the set of yielded pages must be 1..n; plus an exhaustive sweep of the chunk helper for n <= 6 (9 thorough) and hints of <= 2 groups of <= 3 entries. Non-trivial = table with a multi-line description containing a digit, or a 100.0% holding not listed first with its figures on their own line; n >= 2 with a hint that is out of range, duplicated or descending. Distinct = distinct case content.");
    d.assumptions = vec!["the 'documented layout' is the one in the parser's doc comment and unit tests: bullet on the first description line, figures at the end of the last description line or alone on the next line, total row '100.0 <value>'", "real PDF extraction variance is represented only by lopdf-generated single-line pages"];
    d.subs.push(Box::new(Sub::<Statement> { name: "table", cases_quick: 60_000, cases_thorough: 1_000_000, strategy: Box::new(|_| statement_strategy()), to_json: Statement::to_json, from_json: Statement::from_json, check: check_table }));
    d.subs.push(Box::new(Sub::<PageCase> { name: "pages", cases_quick: 1_200, cases_thorough: 20_000, strategy: Box::new(|_| page_strategy()), to_json: |c| json::object! { n: c.n, hints: c.hints.iter().map(|g| JsonValue::Array(g.iter().map(|x| (*x).into()).collect())).collect::<Vec<_>>() }, from_json: |v| Some(PageCase { n: v["n"].as_u32()?, hints: v["hints"].members().map(|g| g.members().filter_map(|x| x.as_u32()).collect()).collect() }), check: check_pages }));
    d.extra = Some(exhaustive_chunks);
    d
}
