//! C13 — the exchange-rate cache never changes an answer (model-based histories of runs and look-ups).
use super::PropDef;
use crate::engine::{guard, known_or_fail, Obs as O, Sub, Tier, Verdict};
use crate::fxfake::{Calendar, CountingRemote};
use acb::fx::io::{CsvRatesCache, InMemoryRatesCache, RateLoader, RatesCache};
use acb::fx::DailyRate;
use acb::util::rc::RcRefCellT;
use acb::util::rw::WriteHandle;
use json::JsonValue;
use proptest::prelude::*;
use std::cell::RefCell;
use std::collections::{BTreeMap, HashMap};
use std::rc::Rc;
use time::{Date, Duration};

#[derive(Clone, Debug)]
pub struct Run { pub today: Date, pub force: bool, pub incl_today: bool, pub lookups: Vec<Date> }
#[derive(Clone, Debug)]
pub struct CacheCase { pub cal: Calendar, pub runs: Vec<Run> }

impl CacheCase {
    pub fn to_json(&self) -> JsonValue {
        json::object! { calendar: self.cal.to_json(), runs: self.runs.iter().map(|r| json::object! { today: r.today.to_string(), force: r.force, incl_today: r.incl_today, lookups: r.lookups.iter().map(|d| d.to_string()).collect::<Vec<_>>() }).collect::<Vec<_>>() }
    }
    pub fn from_json(v: &JsonValue) -> Option<CacheCase> {
        let runs: Option<Vec<Run>> = v["runs"].members().map(|r| Some(Run { today: crate::gen::parse_date(r["today"].as_str()?)?, force: r["force"].as_bool()?, incl_today: r["incl_today"].as_bool()?, lookups: r["lookups"].members().filter_map(|x| x.as_str().and_then(crate::gen::parse_date)).collect() })).collect();
        Some(CacheCase { cal: Calendar::from_json(&v["calendar"])?, runs: runs? })
    }
}

pub fn strategy(_t: Tier) -> BoxedStrategy<CacheCase> {
    let run = (0usize..8, any::<u8>(), any::<bool>(), proptest::collection::vec((0u8..7, any::<u16>()), 1..8));
    (super::c12::calendar_strategy(), any::<u16>(), proptest::collection::vec(run, 1..=5)).prop_map(|((mut cal, edges, first, last), tix, runs)| {
        cal.junk_entries = false;
        // malformed observations are C12's business; here every day is either published or not
        let bad: Vec<Date> = cal.days.iter().filter(|(_, o)| matches!(o, crate::fxfake::Obs::Malformed(_))).map(|(d, _)| *d).collect();
        for d in bad { cal.days.remove(&d); }
        let ndays = (last - first).whole_days() as usize + 1;
        let mut today = first + Duration::days((90 + ((tix as usize * (ndays - 90)) >> 16)) as i64);
        let mut out = vec![];
        for (step, force, incl, looks) in runs {
            today = today + Duration::days([0i64, 1, 2, 7, 30, 200, 430, 3][step]);
            // a seventh of the runs happen right at a year's end or start (time only moves forward)
            if force % 7 == 3 { let edge = crate::fxfake::ymd(today.year(), 12, 29) + Duration::days((force / 7 % 6) as i64); if edge >= today && edge <= last + Duration::days(400) { today = edge; } }
            let mut lookups = vec![];
            for (kind, ix) in looks {
                let d = match kind {
                    0 => today - Duration::days(1 + (ix % 5) as i64),                 // just before today (newer than any older cache)
                    1 => today - Duration::days(30 + (ix % 400) as i64),               // older
                    2 => today + Duration::days((ix % 3) as i64),                      // today / future
                    3 if !edges.is_empty() => edges[ix as usize % edges.len()],
                    4 => crate::fxfake::ymd(today.year() - (ix % 2) as i32, 1, 1) + Duration::days((ix % 6) as i64), // start of (previous) year
                    5 => first + Duration::days(((ix as usize * ndays) >> 16) as i64),
                    _ => crate::fxfake::ymd(today.year() - (ix % 2) as i32, 12, 28) + Duration::days((ix / 2 % 7) as i64),     // end of (previous) year .. Jan 3
                };
                lookups.push(d);
            }
            // what the bank has published never shrinks: once today's rate was visible it stays visible
            let incl = incl || out.last().map(|p: &Run| p.today == today && p.incl_today).unwrap_or(false);
            out.push(Run { today, force: force % 5 == 0, incl_today: incl, lookups });
        }
        CacheCase { cal, runs: out }
    }).boxed()
}

/// A RatesCache wrapper that lets the check look at what is persisted.
struct SharedMem(InMemoryRatesCache);
impl RatesCache for SharedMem {
    fn write_rates(&mut self, year: u32, rates: &Vec<DailyRate>) -> Result<(), String> { self.0.write_rates(year, rates) }
    fn get_usd_cad_rates(&mut self, year: u32) -> Result<Option<Vec<DailyRate>>, String> { self.0.get_usd_cad_rates(year) }
}

/// A cache whose writes fail (read-only or full cache directory): nothing is ever persisted.
struct FailingWrites;
impl RatesCache for FailingWrites {
    fn write_rates(&mut self, _year: u32, _rates: &Vec<DailyRate>) -> Result<(), String> { Err("cache directory is not writable".into()) }
    fn get_usd_cad_rates(&mut self, _year: u32) -> Result<Option<Vec<DailyRate>>, String> { Ok(None) }
}

fn run_history(c: &CacheCase, csv_dir: Option<&std::path::Path>, obs: &mut O) -> Verdict { run_history_with(c, csv_dir, false, obs) }

fn run_history_with(c: &CacheCase, csv_dir: Option<&std::path::Path>, failing_writes: bool, obs: &mut O) -> Verdict {
    let cal = Rc::new(c.cal.clone());
    let shared: acb::util::rc::RcRefCell<HashMap<u32, Vec<DailyRate>>> = RcRefCellT::new(HashMap::new());
    let kind = if failing_writes { "cache whose writes fail" } else if csv_dir.is_some() { "csv-file cache" } else { "in-memory cache" };
    let mut prev_unforced = false;
    // "any cache state an earlier run can leave behind" includes an interrupted first download: a left-over, truncated temporary file
    // of the year the first look-up needs (cut inside a rate) and no cache file yet.  For a third of the CSV-directory histories.
    if let (Some(dir), Some(run0)) = (csv_dir, c.runs.first()) {
        if let Some(d0) = run0.lookups.first() {
            if crate::engine::hash_str(&c.to_json().dump()) % 3 == 0 {
                let y = d0.year();
                let mut text = String::new();
                let mut d = crate::fxfake::ymd(y, 1, 1);
                let stop = (*d0 + Duration::days(2)).min(run0.today);
                while d < stop && d.year() == y { if let Some(r) = c.cal.published(d) { text += &format!("{d},{r}\n"); } else { text += &format!("{d},0\n"); } d = d + Duration::days(1); }
                // cut inside the digits of the last published rate
                if let Some(pos) = text.trim_end().rfind(',') { let keep = (pos + 3).min(text.trim_end().len()); text.truncate(keep); }
                if !text.is_empty() { let _ = std::fs::write(dir.join(format!("rates-{y}.csv.tmp")), &text); obs.class("left-over-truncated-temporary-file"); }
            }
        }
    }
    for (ri, run) in c.runs.iter().enumerate() {
        crate::observe::reset_globals(run.today);
        let cutoff = if run.incl_today { run.today + Duration::days(1) } else { run.today };
        let calls: Rc<RefCell<BTreeMap<u32, u32>>> = Rc::new(RefCell::new(BTreeMap::new()));
        let cache: Box<dyn RatesCache> = if failing_writes { Box::new(FailingWrites) } else { match csv_dir { Some(d) => Box::new(CsvRatesCache::new(d.to_path_buf(), WriteHandle::empty_write_handle())), None => Box::new(SharedMem(InMemoryRatesCache { rates_by_year: shared.clone() })) } };
        let mut loader = RateLoader::new(run.force, cache, Box::new(CountingRemote { cal: cal.clone(), cutoff, calls: calls.clone() }), WriteHandle::empty_write_handle());
        if run.force && prev_unforced { obs.nt("forced-run-after-unforced"); }
        prev_unforced = !run.force;
        let mut served_from_cache_first: BTreeMap<i32, bool> = BTreeMap::new();
        for (li, d) in run.lookups.iter().enumerate() {
            // what does the persisted cache hold for that year right now?
            let persisted: Option<Vec<DailyRate>> = if failing_writes { None } else { match csv_dir { Some(dir) => CsvRatesCache::new(dir.to_path_buf(), WriteHandle::empty_write_handle()).get_usd_cad_rates(d.year() as u32).ok().flatten(), None => shared.borrow().get(&(d.year() as u32)).cloned() } };
            // which dates the persisted year covers is read off the file itself (date,rate lines), not through the reader under test
            let cache_has_date = !failing_writes && match csv_dir {
                Some(dir) => std::fs::read_to_string(dir.join(format!("rates-{}.csv", d.year()))).map(|t| t.lines().any(|l| l.split(',').next().map(|x| x.trim() == d.to_string()).unwrap_or(false))).unwrap_or(false),
                None => persisted.as_ref().map(|v| v.iter().any(|r| r.date == *d)).unwrap_or(false),
            };
            let before = calls.borrow().get(&(d.year() as u32)).copied().unwrap_or(0);
            let got = match guard(|| loader.blocking_get_effective_usd_cad_rate(*d)) { Ok(g) => g, Err(p) => return Verdict::Fail(format!("[{kind}] panic in run {ri} look-up {d}: {}", p.sig())) };
            // the same look-up without any cache
            let mut fresh = RateLoader::new(false, Box::new(InMemoryRatesCache::new()), Box::new(CountingRemote { cal: cal.clone(), cutoff, calls: Rc::new(RefCell::new(BTreeMap::new())) }), WriteHandle::empty_write_handle());
            let want = match guard(|| fresh.blocking_get_effective_usd_cad_rate(*d)) { Ok(g) => g, Err(p) => return Verdict::Fail(format!("panic without cache: {}", p.sig())) };
            let after = calls.borrow().get(&(d.year() as u32)).copied().unwrap_or(0);
            let same = match (&got, &want) { (Ok(a), Ok(b)) => a.date == b.date && a.foreign_to_local_rate == b.foreign_to_local_rate, (Err(_), Err(_)) => true, _ => false };
            if !same {
                let show = |r: &Result<DailyRate, String>| match r { Ok(x) => format!("{} from {}", x.foreign_to_local_rate, x.date), Err(e) => format!("error ({})", e.chars().take(90).collect::<String>()) };
                let detail = format!("[{kind}] run {ri} (today {}, force {}), look-up #{li} of {d}: with the cache left by earlier look-ups the answer is {}, without any cache it is {}\nhistory: {}", run.today, run.force, show(&got), show(&want), c.runs.iter().map(|r| format!("[today {} force {} remote<{} : {}]", r.today, r.force, if r.incl_today { "=today" } else { "today" }, r.lookups.iter().map(|d| d.to_string()).collect::<Vec<_>>().join(" "))).collect::<Vec<_>>().join(" "));
                // recorded root cause: a year first served from a cache that is older than the requested date is never re-validated in that run
                let stale_year = served_from_cache_first.get(&d.year()).copied().unwrap_or(false) || (1..=7).any(|k| served_from_cache_first.get(&(*d - Duration::days(k)).year()).copied().unwrap_or(false));
                if stale_year && !run.force { return known_or_fail("F-13a", detail); }
                return Verdict::Fail(detail);
            }
            for (y, n) in calls.borrow().iter() { if *n > 1 { return Verdict::Fail(format!("[{kind}] run {ri}: year {y} downloaded {n} times in one run")); } }
            if !run.force && cache_has_date && after != before { return Verdict::Fail(format!("[{kind}] run {ri} look-up {d}: the cached year already covers the date but the year was downloaded again")); }
            // bookkeeping for classification
            let y = d.year();
            if !served_from_cache_first.contains_key(&y) { served_from_cache_first.insert(y, after == before && persisted.is_some() && !run.force); }
            else if served_from_cache_first[&y] && !cache_has_date && *d < run.today { obs.nt("cached-date-first-then-date-newer-than-the-cache"); }
            if cache_has_date { obs.class("date-covered-by-cache"); }
            if after != before { obs.class("download"); }
        }
    }
    Verdict::Pass
}

fn check(c: &CacheCase, obs: &mut O) -> Verdict {
    let v = run_history(c, None, obs);
    if !matches!(v, Verdict::Pass) { return v; }
    let dir = std::env::temp_dir().join(format!("c13-{}-{:x}", std::process::id(), crate::engine::hash_str(&c.to_json().dump())));
    let _ = std::fs::remove_dir_all(&dir);
    let _ = std::fs::create_dir_all(&dir);
    let mut o2 = O::default();
    let v = run_history(c, Some(&dir), &mut o2);
    let _ = std::fs::remove_dir_all(&dir);
    if !matches!(v, Verdict::Pass) { return v; }
    // a cache that cannot be written: answers still equal the no-cache answers, and a year is still downloaded at most once per run
    let mut o3 = O::default();
    let v = run_history_with(c, None, true, &mut o3);
    if c.runs.len() >= 2 { obs.class(">=2-runs"); }
    v
}

pub fn def() -> PropDef {
    let mut d = PropDef::new("C13", "model-based histories: one generated publication calendar; 1-5 runs with non-decreasing 'today' (steps 0 days ... 14 months), force flag, remote data = everything published before that run's today (sometimes including today), and 1-8 look-ups per run in any order (just before today, older, today/future, gap edges, start of this/previous year, random); the cache object (in-memory, then a real CSV cache directory, then a cache whose writes fail) is carried from run to run. After every look-up the answer must equal that of a fresh loader with an empty cache over the same remote data and 'today' (same date and rate, or both errors); a year is downloaded at most once per run, and not at all for a date the persisted cache already covers (unless forced). Non-trivial = a run that first looks up a date served from the cache and later a past date of the same year that the cache does not cover, or a forced run after an unforced one. Distinct = distinct case content.");
    d.assumptions = vec!["the remote always contains every rate published before the run's today (the property's premise)", "no remote errors are injected"];
    d.subs.push(Box::new(Sub::<CacheCase> { name: "history", cases_quick: 12_000, cases_thorough: 200_000, strategy: Box::new(strategy), to_json: CacheCase::to_json, from_json: CacheCase::from_json, check }));
    d
}
