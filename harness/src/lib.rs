pub mod bigrat;
pub mod engine;
pub mod model;
pub mod observe;
pub mod gen;
pub mod props;
pub mod cmp;
pub mod snapshot;
