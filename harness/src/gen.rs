//! Generators: histories are built from intent vectors by an interpreter that tracks the exact
//! ledger state, so valid histories are valid by construction and shrinking works on intents.
use crate::bigrat::Rat;
use crate::model::{affiliate_id, Act, MRow};
use crate::observe::synthetic_effective_rate;
use json::{object, JsonValue};
use proptest::prelude::*;
use std::collections::BTreeMap;
use time::{Date, Duration, Month};

/// One CSV row exactly as a user would type it.
#[derive(Clone, Debug, PartialEq, Eq, Hash)]
pub struct HRow {
    pub sec: String,
    pub td: Date,
    pub sd: Date,
    pub act: Act,
    pub shares: String,
    pub price: String,
    pub comm: String,
    pub cur: String,
    pub rate: String,
    pub ccur: String,
    pub crate_: String,
    pub af: String,
    pub split: String,
    pub sfl: String,
    pub memo: String,
}

impl HRow {
    pub fn new(sec: &str, td: Date, sd: Date, act: Act) -> HRow {
        HRow { sec: sec.into(), td, sd, act, shares: String::new(), price: String::new(), comm: String::new(), cur: String::new(), rate: String::new(), ccur: String::new(), crate_: String::new(), af: String::new(), split: String::new(), sfl: String::new(), memo: String::new() }
    }
    pub fn to_json(&self) -> JsonValue {
        object! { sec: self.sec.as_str(), td: self.td.to_string(), sd: self.sd.to_string(), act: self.act.csv(), shares: self.shares.as_str(), price: self.price.as_str(), comm: self.comm.as_str(), cur: self.cur.as_str(), rate: self.rate.as_str(), ccur: self.ccur.as_str(), crate: self.crate_.as_str(), af: self.af.as_str(), split: self.split.as_str(), sfl: self.sfl.as_str(), memo: self.memo.as_str() }
    }
    pub fn from_json(v: &JsonValue) -> Option<HRow> {
        let s = |k: &str| v[k].as_str().map(|x| x.to_string());
        Some(HRow { sec: s("sec")?, td: parse_date(&s("td")?)?, sd: parse_date(&s("sd")?)?, act: match s("act")?.as_str() { "Buy" => Act::Buy, "Sell" => Act::Sell, "RoC" => Act::Roc, "SfLA" => Act::Sfla, "Split" => Act::Split, _ => return None },
            shares: s("shares")?, price: s("price")?, comm: s("comm")?, cur: s("cur")?, rate: s("rate")?, ccur: s("ccur")?, crate_: s("crate")?, af: s("af")?, split: s("split")?, sfl: s("sfl")?, memo: s("memo").unwrap_or_default() })
    }
    /// Is this a split addressed to everyone (no affiliate cell)?
    pub fn is_global_split(&self) -> bool { self.act == Act::Split && self.af.trim().is_empty() }
    /// Exact view of the row for the model. USD without a rate uses the synthetic calendar.
    pub fn to_mrow(&self) -> MRow {
        let af = if self.is_global_split() { None } else { Some(affiliate_id(&self.af).0) };
        let mut m = MRow::blank(self.sd, self.td, self.act, af);
        let p = |s: &str| if s.trim().is_empty() { Rat::zero() } else { Rat::parse(s).unwrap_or_else(|| panic!("generator produced unparsable number {s:?}")) };
        m.shares = p(&self.shares);
        m.price = p(&self.price);
        m.comm = p(&self.comm);
        let rate_of = |cur: &str, rate: &str, td: Date| -> Rat {
            let c = cur.trim().to_uppercase();
            if !rate.trim().is_empty() { p(rate) } else if c.is_empty() || c == "CAD" { Rat::one() } else if c == "USD" { Rat::from_decimal(&synthetic_effective_rate(td)) } else { panic!("generator: currency {c} without rate") }
        };
        m.rate = rate_of(&self.cur, &self.rate, self.td);
        m.comm_rate = if self.ccur.trim().is_empty() && self.crate_.trim().is_empty() { m.rate.clone() } else { rate_of(&self.ccur, &self.crate_, self.td) };
        if self.act == Act::Split {
            let (a, b) = self.split.split_once("-for-").expect("split ratio");
            let integer_only = !(a.contains('.') || b.contains('.'));
            m.split = (p(a), p(b), integer_only);
        }
        if !self.sfl.trim().is_empty() {
            let force = self.sfl.trim().ends_with('!');
            m.sfl = Some((p(self.sfl.trim().trim_end_matches('!')), force));
        }
        m
    }
}

pub fn parse_date(s: &str) -> Option<Date> {
    let mut it = s.split('-');
    let y: i32 = it.next()?.parse().ok()?; let m: u8 = it.next()?.parse().ok()?; let d: u8 = it.next()?.parse().ok()?;
    Date::from_calendar_date(y, Month::try_from(m).ok()?, d).ok()
}
pub fn ymd(y: i32, m: u8, d: u8) -> Date { Date::from_calendar_date(y, Month::try_from(m).unwrap(), d).unwrap() }

pub const COLS: [&str; 15] = ["security", "trade date", "settlement date", "action", "shares", "amount/share", "commission", "currency", "exchange rate", "commission currency", "commission exchange rate", "superficial loss", "split ratio", "affiliate", "memo"];

pub fn cell(r: &HRow, col: &str) -> String {
    match col {
        "security" => r.sec.clone(), "trade date" => r.td.to_string(), "settlement date" | "date" => r.sd.to_string(), "action" => r.act.csv().to_string(),
        "shares" => r.shares.clone(), "amount/share" => r.price.clone(), "commission" => r.comm.clone(), "currency" => r.cur.clone(), "exchange rate" => r.rate.clone(),
        "commission currency" => r.ccur.clone(), "commission exchange rate" => r.crate_.clone(), "superficial loss" => r.sfl.clone(), "split ratio" => r.split.clone(),
        "affiliate" => r.af.clone(), "memo" => r.memo.clone(), _ => String::new(),
    }
}

pub fn csv_escape(s: &str) -> String { if s.contains(',') || s.contains('"') || s.contains('\n') || s.contains('\r') { format!("\"{}\"", s.replace('"', "\"\"")) } else { s.to_string() } }

/// Plain rendering: all columns, canonical order.
pub fn to_csv(rows: &[HRow]) -> String {
    let mut s = COLS.join(",");
    s.push('\n');
    for r in rows { s += &COLS.iter().map(|c| csv_escape(&cell(r, c))).collect::<Vec<_>>().join(","); s.push('\n'); }
    s
}

pub fn files_json(files: &[(String, String)]) -> JsonValue { JsonValue::Array(files.iter().map(|(n, t)| object! { name: n.as_str(), text: t.as_str() }).collect()) }
pub fn files_from_json(v: &JsonValue) -> Option<Vec<(String, String)>> { v.members().map(|f| Some((f["name"].as_str()?.to_string(), f["text"].as_str()?.to_string()))).collect() }

// ------------------------------------------------------------------------------------------
// Intents
// ------------------------------------------------------------------------------------------
#[derive(Clone, Debug)]
pub struct Intent {
    pub kind: u16,
    pub sec: u16,
    pub af: u16,
    pub date_ref: u16,
    pub date_off: u16,
    pub settle: u16,
    pub qty: u16,
    pub price: u16,
    pub comm: u16,
    pub cur: u16,
    pub ccur: u16,
    pub frac: u16,
    pub rel: u16,
    pub split: u16,
    pub flag: u16,
    pub key: u16,
    pub sfl: u16,
}

pub fn intent_strategy() -> impl Strategy<Value = Intent> {
    ((any::<u16>(), any::<u16>(), any::<u16>(), any::<u16>(), any::<u16>(), any::<u16>(), any::<u16>(), any::<u16>()),
     (any::<u16>(), any::<u16>(), any::<u16>(), any::<u16>(), any::<u16>(), any::<u16>(), any::<u16>(), any::<u16>(), any::<u16>()))
        .prop_map(|((kind, sec, af, date_ref, date_off, settle, qty, price), (comm, cur, ccur, frac, rel, split, flag, key, sfl))| Intent { kind, sec, af, date_ref, date_off, settle, qty, price, comm, cur, ccur, frac, rel, split, flag, key, sfl })
}

/// Monotone index map (shrinks towards element 0).
pub fn pick<T: Clone>(ix: u16, table: &[T]) -> T { table[(ix as usize * table.len()) >> 16].clone() }
/// Weighted monotone pick: table of (weight, value).
pub fn wpick<T: Clone>(ix: u16, table: &[(u32, T)]) -> T {
    let tot: u64 = table.iter().map(|t| t.0 as u64).sum();
    let mut x = (ix as u64 * tot) >> 16;
    for (w, v) in table { if x < *w as u64 { return v.clone(); } x -= *w as u64; }
    table.last().unwrap().1.clone()
}

#[derive(Clone, Debug)]
pub struct GenParams {
    pub max_rows: usize,
    pub secs: Vec<&'static str>,
    /// spelled affiliates available (first = default)
    pub afs: Vec<&'static str>,
    pub manual_sfla: bool,
    pub splits: bool,
    pub roc: bool,
    pub usd_norate: bool,
    pub foreign: bool,
    /// percentage of sales that get a user-declared superficial-loss cell
    pub sfl_column_pct: u32,
    /// weight of loss-priced sales
    pub loss_bias: bool,
    pub shuffle: bool,
    pub base_year_lo: i32,
    pub base_year_hi: i32,
    /// restrict to exactly representable amounts (used by C15)
    pub tame_numbers: bool,
    pub global_splits: bool,
    /// opening positions for any of the securities (C16), not only the first
    pub opening_all_secs: bool,
    /// start near Dec 31 and favour gaps that cross year ends (C06)
    pub year_edge: bool,
}

impl GenParams {
    pub fn ledger() -> GenParams {
        GenParams { max_rows: 14, secs: vec!["FOO", "BAR", "XYZ.TO"], afs: vec!["", "Spouse", "(R)", "Spouse (R)", "My  Kid"], manual_sfla: true, splits: true, roc: true, usd_norate: true, foreign: true, sfl_column_pct: 0, loss_bias: true, shuffle: true, base_year_lo: 2005, base_year_hi: 2030, tame_numbers: false, global_splits: true, opening_all_secs: false, year_edge: false }
    }
}

pub const SPELLINGS: [(&str, &[&str]); 5] = [
    ("", &["", "Default", " default ", "DEFAULT"]),
    ("Spouse", &["Spouse", "spouse", "SPOUSE", " Spouse "]),
    ("(R)", &["(R)", "(r)", "Default (R)", "(R) default"]),
    ("Spouse (R)", &["Spouse (R)", "spouse(R)", "(r) Spouse", "SPOUSE (R)"]),
    ("My  Kid", &["My  Kid", "my kid", "My Kid", "MY  KID"]),
];

#[derive(Clone, Debug)]
struct AfState { bal: Rat, acb: Rat }
impl Default for AfState { fn default() -> Self { AfState { bal: Rat::zero(), acb: Rat::zero() } } }

#[derive(Clone, Debug, Default)]
struct SecState {
    afs: BTreeMap<String, AfState>,
    last_buy: Option<Date>,
    last_loss_sale: Option<Date>,
    /// trade dates of (global?, date) splits, to stay clear of the proximity refusal
    splits: Vec<(bool, Date)>,
    /// trade dates of all rows (so a new global split is not placed next to an earlier per-affiliate one)
    any_rows: bool,
}

pub struct Built { pub rows: Vec<HRow>, pub opening: Vec<(String, String, String)>, pub tags: Vec<String> }

/// What "sell everything" means for a generated history: the exact holding when it can be typed with
/// at most 10 decimals, otherwise the holding truncated to 4 decimals (so no dust position of 1e-10
/// shares is ever created; such dust would carry arbitrarily large per-share costs and make the
/// 1e-9 comparison ill-conditioned).
pub fn sellable(bal: &Rat) -> Rat { if bal.to_decimal_string(10).is_some() { bal.clone() } else { bal.floor_dp(4) } }
/// Keep the residue of a sale either zero or at least 1e-6 shares.
pub fn no_dust(bal: &Rat, q: Rat, all: &Rat) -> Rat {
    let rest = bal.sub(&q);
    if rest.is_pos() && rest.lt(&Rat::ratio(1, 1_000_000)) { all.clone() } else { q }
}

fn dp_string(r: &Rat, dp: u32) -> String { r.floor_dp(dp).to_decimal_string(dp).unwrap() }

/// Interpret intents into a valid history (chronological construction, optional admissible shuffle).
pub fn build_history(intents: &[Intent], p: &GenParams, head: &Intent) -> Built {
    let mut tags: Vec<String> = vec![];
    let start_table: Vec<Date> = vec![
        ymd(p.base_year_lo.max(2010), 3, 2), ymd(2016, 12, 20), ymd(2019, 12, 27), ymd(2020, 2, 1), ymd(2016, 11, 25), ymd(2017, 1, 2), ymd(p.base_year_lo, 6, 15), ymd(p.base_year_hi, 1, 10), ymd(2023, 12, 29), ymd(2024, 2, 27),
    ];
    let edge_table: Vec<Date> = vec![ymd(2015, 12, 29), ymd(2016, 12, 30), ymd(2019, 12, 31), ymd(2020, 12, 28), ymd(2022, 12, 30), ymd(2023, 12, 29)];
    let mut cur_date = if p.year_edge { pick(head.date_off, &edge_table) } else { pick(head.date_off, &start_table) };
    let mut st: BTreeMap<String, SecState> = BTreeMap::new();
    let mut rows: Vec<(HRow, u16)> = vec![];
    let mut opening = vec![];
    // opening positions (default affiliate) for some securities
    let nsecs = 1 + ((head.sec as usize * p.secs.len()) >> 16);
    let secs: Vec<&str> = p.secs[..nsecs].to_vec();
    let nafs = 1 + ((head.af as usize * p.afs.len()) >> 16);
    let afs: Vec<&str> = p.afs[..nafs].to_vec();
    // per-case spelling of each affiliate
    let spell: Vec<String> = afs.iter().enumerate().map(|(i, a)| {
        let variants = SPELLINGS.iter().find(|(k, _)| k == a).map(|(_, v)| *v).unwrap_or(&[]);
        if variants.is_empty() { a.to_string() } else { variants[((head.key as usize).wrapping_mul(31).wrapping_add(i * 7)) % variants.len()].to_string() }
    }).collect();
    for (i, sec) in secs.iter().enumerate() {
        let want = if p.opening_all_secs { (head.flag >> (2 * i)) % 2 == 0 } else { i == 0 && head.flag % 4 == 0 };
        if !want { continue; }
        // (a position of no shares that still carries a cost base - e.g. after a fully denied loss - has no equivalent purchase row, so the
        // C16 generator, which compares with one, leaves it out)
        let table: &[(&str, &str)] = if p.opening_all_secs { &[("10", "1000"), ("3", "10"), ("0.5", "33.33"), ("100", "0"), ("7", "100.01"), ("0", "0"), ("3", "250.3333333333"), ("2", "100.009")] } else { &[("10", "1000"), ("3", "10"), ("0.5", "33.33"), ("100", "0"), ("7", "100.01"), ("0", "0"), ("0", "12.5"), ("0", "150"), ("3", "250.3333333333"), ("2", "100.009")] };
        let (sh, acb) = pick(head.qty.wrapping_add((i as u16).wrapping_mul(13001)), table);
        opening.push((sec.to_string(), sh.to_string(), acb.to_string()));
        let e = st.entry(sec.to_string()).or_default();
        e.afs.insert("default".into(), AfState { bal: Rat::parse(sh).unwrap(), acb: Rat::parse(acb).unwrap() });
        tags.push("opening".into());
    }
    let gap_table: [(u32, i64); 14] = [(6, 0), (4, 1), (3, 2), (3, 7), (2, 15), (2, 28), (2, 29), (3, 30), (3, 31), (2, 32), (2, 45), (2, 61), (1, 200), (1, 400)];
    let off_table: [(u32, i64); 12] = [(3, 0), (2, 1), (2, 15), (3, 29), (4, 30), (4, 31), (2, 32), (1, 2), (1, 5), (1, 28), (1, 59), (1, 60)];
    for it in intents.iter().take(p.max_rows) {
        let sec = pick(it.sec, &secs).to_string();
        let af_ix = (it.af as usize * afs.len()) >> 16;
        let af_sp = spell[af_ix].clone();
        let (af_id, reg) = affiliate_id(&af_sp);
        // date
        let s = st.entry(sec.clone()).or_default();
        let base = match wpick(it.date_ref, &[(5u32, 0u8), (3, 1), (3, 2)]) {
            1 => s.last_buy, 2 => s.last_loss_sale, _ => None,
        };
        let edge_gaps: [(u32, i64); 9] = [(5, 0), (4, 1), (3, 2), (2, 3), (2, 30), (3, 362), (3, 364), (3, 366), (1, 700)];
        let mut d = match base {
            Some(b) if !p.year_edge || it.flag % 2 == 0 => b + Duration::days(wpick(it.date_off, &off_table)),
            _ => cur_date + Duration::days(if p.year_edge { wpick(it.date_off, &edge_gaps) } else { wpick(it.date_off, &gap_table) }),
        };
        if d < cur_date { d = cur_date; }
        let mut kind = wpick(it.kind, &[(6u32, Act::Buy), (6, Act::Sell), (if p.roc { 1 } else { 0 }, Act::Roc), (if p.splits { 2 } else { 0 }, Act::Split), (if p.manual_sfla { 1 } else { 0 }, Act::Sfla)]);
        let a = s.afs.get(&af_id).cloned().unwrap_or_default();
        let hold10 = sellable(&a.bal);
        if kind == Act::Sell && !hold10.is_pos() { kind = Act::Buy; }
        if (kind == Act::Roc || kind == Act::Sfla) && reg { kind = Act::Buy; }
        if kind == Act::Roc && !a.bal.is_pos() && it.flag % 3 != 0 { kind = Act::Buy; }
        let settle_lag = wpick(it.settle, &[(3u32, 0i64), (2, 1), (4, 2), (1, 3)]);
        let mut r = HRow::new(&sec, d - Duration::days(settle_lag), d, kind);
        r.af = af_sp.clone();
        // currency
        let cur_kind = if !p.foreign { 0 } else { wpick(it.cur, &[(5u32, 0u8), (1, 1), (3, 2), (if p.usd_norate { 2 } else { 0 }, 3), (1, 4)]) };
        let rate_tab = ["1.3", "1.2345", "0.75", "1.000001", "1.4142135623", "0.9999", "2"];
        let (cur, rate) = match cur_kind { 0 => ("".to_string(), "".to_string()), 1 => ("CAD".into(), if it.flag % 2 == 0 { "".into() } else { "1".into() }), 2 => ("USD".into(), pick(it.price.wrapping_mul(7), &rate_tab).to_string()), 3 => ("USD".into(), "".into()), _ => ("EUR".into(), pick(it.price.wrapping_mul(13), &rate_tab).to_string()) };
        let fx = || -> Rat { if !rate.is_empty() { Rat::parse(&rate).unwrap() } else if cur == "USD" { Rat::from_decimal(&synthetic_effective_rate(r.td)) } else { Rat::one() } };
        match kind {
            Act::Buy | Act::Sell => {
                r.cur = cur.clone(); r.rate = rate.clone();
                // commission
                let comm = if p.tame_numbers { pick(it.comm, &["", "0", "1", "9.99"]) } else { pick(it.comm, &["", "0", "0.00", "1", "9.99", "4.95", "0.0000000001", "12.3456789"]) };
                r.comm = comm.to_string();
                if p.foreign && !comm.is_empty() {
                    match wpick(it.ccur, &[(7u32, 0u8), (1, 1), (1, 2), (1, 3), (if p.usd_norate { 2 } else { 0 }, 4)]) {
                        1 => { r.ccur = "CAD".into(); }
                        2 => { r.ccur = "USD".into(); r.crate_ = pick(it.ccur.wrapping_mul(5), &rate_tab).to_string(); tags.push("comm-other-currency".into()); }
                        3 => { r.ccur = "EUR".into(); r.crate_ = pick(it.ccur.wrapping_mul(11), &rate_tab).to_string(); tags.push("comm-other-currency".into()); }
                        // a USD commission whose rate the tool looks up itself, whatever the amount's own currency and rate are
                        4 => { r.ccur = "USD".into(); tags.push("comm-usd-day-rate".into()); }
                        _ => {}
                    }
                }
            }
            Act::Roc => { r.cur = cur.clone(); r.rate = rate.clone(); }
            _ => {}
        }
        let mrate = fx();
        match kind {
            Act::Buy => {
                let qty = if p.tame_numbers { pick(it.qty, &["10", "1", "6", "30", "100", "12", "60", "2.5"]) } else { pick(it.qty, &["10", "1", "3", "7", "100", "25", "0.5", "3.3333333333", "0.1428571429", "12.3456", "1000", "0.0001", "50000", "33"]) };
                let price = if p.tame_numbers { pick(it.price, &["10", "1", "2.5", "100", "0.6", "36"]) } else { pick(it.price, &["10", "1", "0.01", "3.3333333333", "19.99", "100", "0", "0.0001", "1234.5678", "7"]) };
                r.shares = qty.to_string(); r.price = price.to_string();
            }
            Act::Sell => {
                let frac = wpick(it.frac, &[(4u32, 0u8), (3, 1), (2, 2), (2, 3), (1, 4), (2, 5)]);
                let q = match frac {
                    0 => hold10.clone(),
                    1 => a.bal.div(&Rat::from_i64(2)).floor_dp(if p.tame_numbers { 0 } else { 4 }),
                    2 => a.bal.div(&Rat::from_i64(3)).floor_dp(if p.tame_numbers { 0 } else { 10 }),
                    3 => Rat::one().min(&hold10),
                    4 => Rat::parse("0.0001").unwrap().min(&hold10),
                    _ => a.bal.mul(&Rat::ratio(1 + (it.qty % 97) as i64, 100)).floor_dp(if p.tame_numbers { 0 } else { 6 }).min(&hold10),
                };
                let q = no_dust(&a.bal, if q.is_pos() { q } else { hold10.clone() }, &hold10);
                r.shares = q.to_decimal_string(10).unwrap();
                // price relative to cost per share, in the row's currency
                let per_share = if reg || !a.bal.is_pos() { Rat::from_i64(10) } else { a.acb.div(&a.bal).div(&mrate) };
                let rel = if p.loss_bias { wpick(it.rel, &[(5u32, 0u8), (2, 1), (1, 2), (3, 3), (1, 4)]) } else { wpick(it.rel, &[(2u32, 0u8), (1, 1), (1, 2), (5, 3), (1, 4)]) };
                let px = match rel {
                    0 => per_share.mul(&Rat::ratio(1 + (it.price % 90) as i64, 100)),
                    1 => per_share.sub(&Rat::ratio(1, 100)).max(&Rat::zero()),
                    2 => per_share.clone(),
                    3 => per_share.mul(&Rat::ratio(101 + (it.price % 150) as i64, 100)),
                    _ => Rat::zero(),
                };
                r.price = dp_string(&px, if p.tame_numbers { 2 } else { 4 });
            }
            Act::Roc => {
                let per_share = if a.bal.is_pos() { a.acb.div(&a.bal).div(&mrate) } else { Rat::from_i64(1) };
                let f = wpick(it.frac, &[(4u32, (1i64, 100i64)), (3, (1, 2)), (2, (1, 1)), (1, (0, 1))]);
                r.price = dp_string(&per_share.mul(&Rat::ratio(f.0, f.1)), 10);
            }
            Act::Sfla => { r.shares = pick(it.qty, &["1", "2", "3"]).to_string(); r.price = pick(it.price, &["1.00", "12.34", "0.01", "100"]).to_string(); }
            Act::Split => {
                let global = p.global_splits && it.flag % 2 == 0;
                // keep clear of the documented refusal: a split for everyone within a day of a per-affiliate split
                let clash = s.splits.iter().any(|(g, t)| *g != global && (d - *t).whole_days().abs() <= 3);
                let global = if clash { s.splits.last().map(|x| x.0).unwrap_or(global) } else { global };
                let ratio = pick(it.split, &["2-for-1", "3-for-1", "1-for-2", "3-for-2", "1-for-3", "1.0-for-3.0", "2-for-3", "10-for-1", "1-for-10", "1.5-for-1", "7-for-3", "4-for-1", "5-for-1", "1-for-4", "1.0-for-2.0",
                    // ratios not in lowest terms
                    "2-for-4", "4-for-6", "5-for-10", "2-for-6", "6-for-4", "3-for-9"]);
                let (pa, pb) = ratio.split_once("-for-").unwrap();
                let (ra, rb) = (Rat::parse(pa).unwrap(), Rat::parse(pb).unwrap());
                let int_only = !ratio.contains('.') && rb.gt(&ra);
                // whole-number reverse splits only when every affected holding stays whole; else decimal form
                let affected: Vec<Rat> = if global { s.afs.values().map(|x| x.bal.clone()).collect() } else { vec![a.bal.clone()] };
                let ok = !int_only || affected.iter().all(|b| b.mul(&ra).div(&rb).is_integer());
                r.split = if ok { ratio.to_string() } else { format!("{}.0-for-{}.0", pa, pb) };
                r.td = d; // splits are dated by their effective day
                if global { r.af = String::new(); tags.push("global-split".into()); } else if r.af.trim().is_empty() { r.af = "Default".into(); }
                s.splits.push((global, d));
            }
        }
        // declared superficial loss cell on some sales (value filled in by the caller that knows the computed one)
        if kind == Act::Sell && p.sfl_column_pct > 0 && (it.sfl as u32 * 100 >> 16) < p.sfl_column_pct && !reg { r.sfl = format!("?{}", it.sfl); }
        // ---- apply to running state (exact) ----
        let m = r.to_mrow_lenient();
        let s = st.get_mut(&sec).unwrap();
        s.any_rows = true;
        match kind {
            Act::Buy => {
                let e = s.afs.entry(af_id.clone()).or_default();
                e.bal = e.bal.add(&m.shares);
                if !reg { e.acb = e.acb.add(&m.shares.mul(&m.price).mul(&m.rate)).add(&m.comm.mul(&m.comm_rate)); }
                s.last_buy = Some(d);
            }
            Act::Sell => {
                let e = s.afs.entry(af_id.clone()).or_default();
                let cost = if e.bal.is_pos() { e.acb.mul(&m.shares).div(&e.bal) } else { Rat::zero() };
                let gain = m.shares.mul(&m.price).mul(&m.rate).sub(&m.comm.mul(&m.comm_rate)).sub(&cost);
                e.bal = e.bal.sub(&m.shares);
                if !reg { e.acb = e.acb.sub(&cost); if gain.is_neg() { s.last_loss_sale = Some(d); } }
            }
            Act::Roc => { let e = s.afs.entry(af_id.clone()).or_default(); let red = m.price.mul(&e.bal).mul(&m.rate); e.acb = e.acb.sub(&red).max(&Rat::zero()); }
            Act::Sfla => { let e = s.afs.entry(af_id.clone()).or_default(); e.acb = e.acb.add(&m.shares.mul(&m.price)); }
            Act::Split => {
                let f = m.split.0.div(&m.split.1);
                if r.af.is_empty() { for e in s.afs.values_mut() { e.bal = e.bal.mul(&f); } } else { let e = s.afs.entry(af_id.clone()).or_default(); e.bal = e.bal.mul(&f); }
            }
        }
        cur_date = d;
        rows.push((r, it.key));
    }
    // NOTE: the running ACB above ignores automatic superficial-loss adjustments; it only steers prices.
    let mut out: Vec<HRow>;
    if p.shuffle && head.flag % 3 != 0 {
        // admissible permutation: random keys, but rows of one security settling on one day keep their order
        let mut keys: Vec<u32> = rows.iter().enumerate().map(|(i, (_, k))| ((*k as u32) << 8) | (i as u32 & 0xff)).collect();
        let mut groups: BTreeMap<(String, Date), Vec<usize>> = BTreeMap::new();
        for (i, (r, _)) in rows.iter().enumerate() { groups.entry((r.sec.clone(), r.sd)).or_default().push(i); }
        for g in groups.values() { if g.len() > 1 { let mut ks: Vec<u32> = g.iter().map(|&i| keys[i]).collect(); ks.sort(); for (j, &i) in g.iter().enumerate() { keys[i] = ks[j]; } } }
        let mut order: Vec<usize> = (0..rows.len()).collect();
        order.sort_by_key(|&i| keys[i]);
        out = order.iter().map(|&i| rows[i].0.clone()).collect();
        if order.windows(2).any(|w| w[0] > w[1]) { tags.push("shuffled".into()); }
    } else { out = rows.into_iter().map(|x| x.0).collect(); }
    for r in out.iter_mut() { if r.memo.is_empty() && r.act == Act::Buy && r.shares == "7" { r.memo = "note, with comma".into(); } }
    // free-text memos, including ones a CSV dialect could mistake for something else (comment marker, quote, formula)
    for (i, r) in out.iter_mut().enumerate() {
        if !r.memo.is_empty() { continue; }
        let h = (r.shares.len() * 7 + r.price.len() * 13 + r.sd.ordinal() as usize + i * 5) % 23;
        r.memo = match h { 0 => "#2 lot", 1 => "lot 2", 2 => "say \"hi\"", 3 => "=SUM(A1)", 4 => "; semi", 5 => "# note", _ => "" }.to_string();
    }
    Built { rows: out, opening, tags }
}

impl HRow {
    /// Like to_mrow but tolerates the `?n` placeholder in the sfl cell.
    pub fn to_mrow_lenient(&self) -> MRow { let mut c = self.clone(); if c.sfl.starts_with('?') { c.sfl.clear(); } c.to_mrow() }
}

pub fn symbol_base_strings(opening: &[(String, String, String)]) -> Vec<String> { opening.iter().map(|(s, n, c)| format!("{s}:{n}:{c}")).collect() }

/// Years touched by USD rows lacking a rate (for the synthetic calendar).
pub fn usd_years(rows: &[HRow]) -> Option<(i32, i32)> {
    let ys: Vec<i32> = rows.iter().filter(|r| (r.cur.eq_ignore_ascii_case("USD") && r.rate.is_empty()) || (r.ccur.eq_ignore_ascii_case("USD") && r.crate_.is_empty())).map(|r| r.td.year()).collect();
    if ys.is_empty() { None } else { Some((*ys.iter().min().unwrap() - 1, *ys.iter().max().unwrap())) }
}

pub fn group_by_sec(rows: &[HRow]) -> BTreeMap<String, Vec<(usize, HRow)>> {
    let mut m: BTreeMap<String, Vec<(usize, HRow)>> = BTreeMap::new();
    for (i, r) in rows.iter().enumerate() { m.entry(r.sec.clone()).or_default().push((i, r.clone())); }
    m
}

// ------------------------------------------------------------------------------------------
// Window scenarios (C02/C03/C15): one anchor loss sale with events at boundary-weighted offsets
// ------------------------------------------------------------------------------------------
#[derive(Clone, Debug)]
pub struct ScenParams {
    pub afs: Vec<&'static str>,
    pub max_events: usize,
    pub splits: bool,
    pub roc: bool,
    pub usd: bool,
    /// force the first event into this (offset, before-anchor-in-file, buyer affiliate index) cell
    pub cell: Option<(i64, bool, usize)>,
    pub tame_numbers: bool,
}

pub const OFFSETS: [i64; 15] = [-61, -32, -31, -30, -29, -15, -1, 0, 1, 15, 29, 30, 31, 32, 61];

pub fn build_scenario(head: &Intent, pre: &[Intent], events: &[Intent], p: &ScenParams) -> Built {
    let mut tags = vec![];
    let sec = "FOO";
    let d0 = pick(head.date_off, &[ymd(2020, 6, 15), ymd(2019, 12, 31), ymd(2020, 1, 1), ymd(2021, 1, 15), ymd(2020, 3, 1), ymd(2016, 12, 30), ymd(2024, 2, 29), ymd(2022, 12, 15)]);
    let nafs = 1 + ((head.af as usize * p.afs.len()) >> 16);
    let afs: Vec<&str> = p.afs[..nafs].to_vec();
    let global_splits = head.flag % 2 == 0;
    // timeline entries: (offset, phase, seq, intent, kind) ; phase 0 = before anchor in file, 1 = anchor, 2 = after
    #[derive(Clone)]
    struct E { off: i64, phase: u8, seq: usize, it: Intent, kind: u8 } // kind: 0 pre-buy, 1 anchor, 2 event
    let mut tl: Vec<E> = vec![];
    for (i, it) in pre.iter().enumerate() { tl.push(E { off: -(62 + (it.date_off as i64 % 60)), phase: 0, seq: i, it: it.clone(), kind: 0 }); }
    tl.push(E { off: 0, phase: 1, seq: 0, it: head.clone(), kind: 1 });
    for (i, it) in events.iter().take(p.max_events).enumerate() {
        let (off, before) = match (&p.cell, i) { (Some((o, b, _)), 0) => (*o, *b), _ => (pick(it.date_off, &OFFSETS), it.flag % 2 == 0) };
        let phase = if off < 0 { 0 } else if off > 0 { 2 } else if before { 0 } else { 2 };
        tl.push(E { off, phase, seq: i, it: it.clone(), kind: 2 });
    }
    tl.sort_by_key(|e| (e.off, e.phase, e.kind, e.seq));
    let mut st: BTreeMap<String, AfState> = BTreeMap::new();
    let mut rows: Vec<HRow> = vec![];
    let rate_tab = ["1.3", "1.2345", "0.75"];
    for e in &tl {
        let it = &e.it;
        let d = d0 + Duration::days(e.off);
        let af_ix = match (&p.cell, e.kind, e.seq) { (Some((_, _, a)), 2, 0) => (*a).min(afs.len() - 1), _ => (it.af as usize * afs.len()) >> 16 };
        let mut af_sp = afs[af_ix].to_string();
        let (mut af_id, mut reg) = affiliate_id(&af_sp);
        let mut kind = match e.kind {
            0 => Act::Buy,
            1 => Act::Sell,
            _ => if p.cell.is_some() && e.seq == 0 { Act::Buy } else { wpick(it.kind, &[(6u32, Act::Buy), (4, Act::Sell), (if p.splits { 2 } else { 0 }, Act::Split), (if p.roc { 1 } else { 0 }, Act::Roc)]) },
        };
        if e.kind == 1 && (reg || !st.get(&af_id).map(|a| sellable(&a.bal).is_pos()).unwrap_or(false)) {
            // anchor must be sold by a non-registered holder: pick the first one that holds shares
            if let Some((id, _)) = st.iter().find(|(id, a)| !id.ends_with("(R)") && sellable(&a.bal).is_pos()) { af_id = id.clone(); reg = false; af_sp = afs.iter().find(|x| affiliate_id(x).0 == af_id).map(|x| x.to_string()).unwrap_or_default(); } else { kind = Act::Buy; }
        }
        let a = st.get(&af_id).cloned().unwrap_or_default();
        let hold10 = sellable(&a.bal);
        if kind == Act::Sell && !hold10.is_pos() { kind = Act::Buy; }
        if kind == Act::Roc && (reg || !a.bal.is_pos()) { kind = Act::Buy; }
        let lag = wpick(it.settle, &[(3u32, 0i64), (2, 1), (3, 2)]);
        let mut r = HRow::new(sec, d - Duration::days(lag), d, kind);
        r.af = af_sp.clone();
        let usd = p.usd && it.cur % 4 == 0 && matches!(kind, Act::Buy | Act::Sell);
        if usd { r.cur = "USD".into(); r.rate = pick(it.price.wrapping_mul(7), &rate_tab).to_string(); }
        let mrate = if usd { Rat::parse(&r.rate).unwrap() } else { Rat::one() };
        match kind {
            Act::Buy => {
                r.shares = if p.tame_numbers { pick(it.qty, &["10", "6", "30", "12", "60", "120"]) } else { pick(it.qty, &["10", "1", "3", "7", "100", "25", "0.5", "3.3333333333", "12.3456", "33", "2"]) }.to_string();
                r.price = if p.tame_numbers { pick(it.price, &["10", "12", "6", "30"]) } else { pick(it.price, &["10", "9.99", "3.3333333333", "19.99", "100", "0.5", "7"]) }.to_string();
                if it.comm % 3 == 0 { r.comm = pick(it.comm, &["4.95", "1", "9.99"]).to_string(); }
            }
            Act::Sell => {
                let frac = if e.kind == 1 { wpick(it.frac, &[(3u32, 0u8), (4, 1), (3, 2), (2, 3), (2, 5)]) } else { wpick(it.frac, &[(4u32, 0u8), (3, 1), (2, 2), (2, 3), (1, 5)]) };
                let dp = if p.tame_numbers { 0 } else { 4 };
                let q = match frac {
                    0 => hold10.clone(),
                    1 => a.bal.div(&Rat::from_i64(2)).floor_dp(dp),
                    2 => a.bal.div(&Rat::from_i64(3)).floor_dp(if p.tame_numbers { 0 } else { 10 }),
                    3 => Rat::one().min(&hold10),
                    _ => a.bal.mul(&Rat::ratio(1 + (it.qty % 97) as i64, 100)).floor_dp(dp).min(&hold10),
                };
                let q = no_dust(&a.bal, if q.is_pos() { q } else { hold10.clone() }, &hold10);
                r.shares = q.to_decimal_string(10).unwrap();
                let per_share = if reg || !a.bal.is_pos() { Rat::from_i64(10) } else { a.acb.div(&a.bal).div(&mrate) };
                let rel = if e.kind == 1 { wpick(it.rel, &[(8u32, 0u8), (2, 1), (1, 3)]) } else { wpick(it.rel, &[(5u32, 0u8), (1, 1), (3, 3)]) };
                let px = match rel { 0 => per_share.mul(&Rat::ratio(10 + (it.price % 80) as i64, 100)), 1 => per_share.sub(&Rat::ratio(1, 100)).max(&Rat::zero()), _ => per_share.mul(&Rat::ratio(110 + (it.price % 100) as i64, 100)) };
                r.price = dp_string(&px, if p.tame_numbers { 2 } else { 4 });
                if it.comm % 4 == 0 { r.comm = pick(it.comm, &["4.95", "1"]).to_string(); }
            }
            Act::Roc => { let per = a.acb.div(&a.bal); r.price = dp_string(&per.mul(&Rat::ratio(1, 10)), 6); }
            Act::Split => {
                let ratio = if p.tame_numbers { pick(it.split, &["2-for-1", "3-for-1", "1.0-for-2.0", "3-for-2", "1.0-for-3.0", "2.0-for-3.0"]) } else { pick(it.split, &["2-for-1", "3-for-1", "1.0-for-2.0", "3-for-2", "1.0-for-3.0", "2.0-for-3.0", "10-for-1", "1.5-for-1", "7-for-3", "1.0-for-4.0"]) };
                r.split = ratio.to_string(); r.td = d;
                if global_splits { r.af = String::new(); } else if r.af.trim().is_empty() { r.af = "Default".into(); }
            }
            Act::Sfla => {}
        }
        let m = r.to_mrow();
        match kind {
            Act::Buy => { let e2 = st.entry(af_id.clone()).or_default(); e2.bal = e2.bal.add(&m.shares); if !reg { e2.acb = e2.acb.add(&m.shares.mul(&m.price).mul(&m.rate)).add(&m.comm.mul(&m.comm_rate)); } }
            Act::Sell => { let e2 = st.entry(af_id.clone()).or_default(); let cost = if e2.bal.is_pos() { e2.acb.mul(&m.shares).div(&e2.bal) } else { Rat::zero() }; e2.bal = e2.bal.sub(&m.shares); if !reg { e2.acb = e2.acb.sub(&cost); } }
            Act::Roc => { let e2 = st.entry(af_id.clone()).or_default(); e2.acb = e2.acb.sub(&m.price.mul(&e2.bal).mul(&m.rate)).max(&Rat::zero()); }
            Act::Split => { let f = m.split.0.div(&m.split.1); if r.af.is_empty() { for e2 in st.values_mut() { e2.bal = e2.bal.mul(&f); } } else { let e2 = st.entry(af_id.clone()).or_default(); e2.bal = e2.bal.mul(&f); } }
            Act::Sfla => {}
        }
        if e.kind == 1 { tags.push(format!("anchor-row:{}", rows.len())); }
        rows.push(r);
    }
    Built { rows, opening: vec![], tags }
}
