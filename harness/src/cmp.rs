//! Row alignment between the tool's deltas and the reference model (DESIGN §3.4).
use crate::bigrat::{tol9, Rat};
use crate::model::{Act, MDelta, MResult};
use acb::portfolio::{TxAction, TxDelta};
use std::collections::BTreeMap;
use time::Date;

#[derive(Clone, Debug)]
pub struct NRow {
    pub act: Act,
    pub af: String,
    pub sd: Date,
    pub td: Date,
    pub share_bal: Rat,
    pub all_bal: Rat,
    pub acb: Option<Rat>,
    pub acb_delta: Option<Rat>,
    pub gain: Option<Rat>,
    pub sfl: Rat,
    pub ratio: Option<(Rat, Rat)>,
    pub flagged: bool,
    pub auto: bool,
    pub read_index: u32,
}

pub fn act_of(a: TxAction) -> Act { match a { TxAction::Buy => Act::Buy, TxAction::Sell => Act::Sell, TxAction::Roc => Act::Roc, TxAction::Sfla => Act::Sfla, TxAction::Split => Act::Split } }

pub fn normalize(d: &TxDelta) -> NRow {
    let r = |x: &rust_decimal::Decimal| Rat::from_decimal(x);
    NRow {
        act: act_of(d.tx.action()),
        af: d.tx.affiliate.id().to_string(),
        sd: d.tx.settlement_date,
        td: d.tx.trade_date,
        share_bal: r(&d.post_status.share_balance),
        all_bal: r(&d.post_status.all_affiliate_share_balance),
        acb: d.post_status.total_acb.as_ref().map(|x| r(x)),
        acb_delta: d.acb_delta().map(|x| r(&x)),
        gain: d.capital_gain.as_ref().map(r),
        sfl: d.sfl.as_ref().map(|s| r(&s.superficial_loss)).unwrap_or(Rat::zero()),
        ratio: d.sfl.as_ref().map(|s| (r(&s.ratio.numerator), r(&s.ratio.denominator))),
        flagged: d.sfl.as_ref().map(|s| s.potentially_over_applied).unwrap_or(false),
        auto: d.tx.action() == TxAction::Sfla && d.tx.memo.starts_with("Automatic SfL ACB adjustment"),
        read_index: d.tx.read_index,
    }
}

fn opt_close(a: &Option<Rat>, b: &Option<Rat>, tol: &Rat) -> bool {
    match (a, b) { (None, None) => true, (Some(x), Some(y)) => x.close(y, tol), _ => false }
}

fn describe(m: &MDelta) -> String { format!("{:?} {} sd={} bal={} all={} acb={:?} gain={:?} sfl={}", m.act, m.af, m.sd, m.share_bal, m.all_bal, m.acb, m.gain, m.sfl) }
fn describe_n(n: &NRow) -> String { format!("{:?} {} sd={} bal={} all={} acb={:?} gain={:?} sfl={}{}", n.act, n.af, n.sd, n.share_bal, n.all_bal, n.acb, n.gain, n.sfl, if n.auto { " (auto)" } else { "" }) }

pub fn dump(model: &[MDelta], tool: &[NRow]) -> String {
    let mut s = String::from("--- tool rows\n");
    for (i, t) in tool.iter().enumerate() { s += &format!("#{i} {}\n", describe_n(t)); }
    s += "--- model rows\n";
    for (i, m) in model.iter().enumerate() { s += &format!("#{i} {}{}\n", describe(m), if m.src.is_none() { format!(" (auto {})", m.adj_amount.as_ref().unwrap()) } else { String::new() }); }
    s
}

pub struct CmpStats { pub user_rows: usize, pub auto_rows: usize, pub superficial: usize }

/// Compare the tool's rows with the model's. `prefix`: the tool's list may stop early (rejected
/// history); then only the rows present are compared and the number of *user* rows matched is returned.
pub fn compare(model: &[MDelta], tool: &[NRow], prefix: bool, what: &CmpWhat) -> Result<CmpStats, String> { compare_at(model, tool, prefix, what).map_err(|e| e.0) }

/// Like `compare`; the error also carries the index of the model row (a user row) at which, or in
/// whose automatic adjustments, the first difference was found.
pub fn compare_at(model: &[MDelta], tool: &[NRow], prefix: bool, what: &CmpWhat) -> Result<CmpStats, (String, Option<usize>)> {
    let mut at: Option<usize> = None;
    let r = compare_inner(model, tool, prefix, what, &mut at);
    r.map_err(|e| (e, at))
}

fn compare_inner(model: &[MDelta], tool: &[NRow], prefix: bool, what: &CmpWhat, at: &mut Option<usize>) -> Result<CmpStats, String> {
    let tol = tol9();
    let (mut i, mut j) = (0usize, 0usize);
    let mut st = CmpStats { user_rows: 0, auto_rows: 0, superficial: 0 };
    while j < tool.len() {
        if i >= model.len() { return Err(format!("tool has extra row #{j}: {}", describe_n(&tool[j]))); }
        let m = &model[i];
        let t = &tool[j];
        *at = Some(i);
        if m.src.is_none() { return Err(format!("internal alignment: model auto row at {i} without a sale")); }
        if t.auto { return Err(format!("tool row #{j} is an automatic adjustment the model does not expect here: {}\n model next: {}", describe_n(t), describe(m))); }
        if m.act == Act::Split && t.act == Act::Split {
            // group of consecutive split rows on one settlement date
            let mut ie = i; while ie < model.len() && model[ie].act == Act::Split && model[ie].sd == m.sd && model[ie].src.is_some() { ie += 1; }
            let mut je = j; while je < tool.len() && tool[je].act == Act::Split && tool[je].sd == t.sd { je += 1; }
            if je - j != ie - i {
                if prefix && je == tool.len() && je - j < ie - i { return Ok(st); } // stopped inside the group
                return Err(format!("split group on {}: model has {} rows, tool {}", m.sd, ie - i, je - j));
            }
            let mut occ_m: BTreeMap<(String, usize), &MDelta> = BTreeMap::new();
            let mut cnt: BTreeMap<String, usize> = BTreeMap::new();
            for x in &model[i..ie] { let c = cnt.entry(x.af.clone()).or_insert(0); occ_m.insert((x.af.clone(), *c), x); *c += 1; }
            let mut cnt: BTreeMap<String, usize> = BTreeMap::new();
            for x in &tool[j..je] {
                let c = cnt.entry(x.af.clone()).or_insert(0);
                let Some(mm) = occ_m.get(&(x.af.clone(), *c)) else { return Err(format!("split group on {}: tool has a split row for {} the model lacks", m.sd, x.af)); };
                *c += 1;
                if what.shares && !x.share_bal.close(&mm.share_bal, &tol) { return Err(format!("split row of {} on {}: share balance tool {} model {}", x.af, x.sd, x.share_bal, mm.share_bal)); }
                if what.acb && !opt_close(&x.acb, &mm.acb, &tol) { return Err(format!("split row of {} on {}: ACB tool {:?} model {:?}", x.af, x.sd, x.acb, mm.acb)); }
            }
            if what.shares && !tool[je - 1].all_bal.close(&model[ie - 1].all_bal, &tol) { return Err(format!("after split group on {}: all-affiliate balance tool {} model {}", m.sd, tool[je - 1].all_bal, model[ie - 1].all_bal)); }
            st.user_rows += je - j;
            i = ie; j = je;
            continue;
        }
        // ordinary user row
        if m.act != t.act || m.af != t.af || m.sd != t.sd { return Err(format!("row #{j} differs in kind: tool {}\n model {}", describe_n(t), describe(m))); }
        let mut errs = vec![];
        if what.shares && !t.share_bal.close(&m.share_bal, &tol) { errs.push(format!("share balance tool {} model {}", t.share_bal, m.share_bal)); }
        if what.shares && !t.all_bal.close(&m.all_bal, &tol) { errs.push(format!("all-affiliate balance tool {} model {}", t.all_bal, m.all_bal)); }
        if what.acb && !opt_close(&t.acb, &m.acb, &tol) { errs.push(format!("total ACB tool {:?} model {:?}", t.acb, m.acb)); }
        if what.gain && !opt_close(&t.gain, &m.gain, &tol) { errs.push(format!("capital gain tool {:?} model {:?}", t.gain, m.gain)); }
        if what.sfl && !t.sfl.close(&m.sfl, &tol) { errs.push(format!("superficial loss tool {} model {}", t.sfl, m.sfl)); }
        if what.ratio && !m.sfl.is_zero() {
            if let (Some((mn, md)), Some((tn, td))) = (&m.ratio, &t.ratio) {
                // compare as values n/d
                if !tn.div(td).close(&mn.div(md), &tol) { errs.push(format!("superficial ratio tool {}/{} model {}/{}", tn, td, mn, md)); }
            }
        }
        if !errs.is_empty() { return Err(format!("row #{j} ({:?} by {} settling {}): {}\n tool  {}\n model {}", t.act, t.af, t.sd, errs.join("; "), describe_n(t), describe(m))); }
        if !m.sfl.is_zero() { st.superficial += 1; }
        st.user_rows += 1;
        i += 1; j += 1;
        // automatic adjustments following this row: compare as a map affiliate -> amount
        let mut mm: BTreeMap<String, Rat> = BTreeMap::new();
        while i < model.len() && model[i].src.is_none() {
            let a = model[i].af.clone();
            let e = mm.entry(a).or_insert(Rat::zero()); *e = e.add(model[i].adj_amount.as_ref().unwrap());
            i += 1;
        }
        let mut tm: BTreeMap<String, Rat> = BTreeMap::new();
        while j < tool.len() && tool[j].auto {
            let e = tm.entry(tool[j].af.clone()).or_insert(Rat::zero()); *e = e.add(&tool[j].acb_delta.clone().unwrap_or(Rat::zero()));
            if tool[j].acb.is_none() { return Err(format!("automatic adjustment addressed to registered affiliate {}", tool[j].af)); }
            st.auto_rows += 1;
            j += 1;
        }
        if what.adjustments && !(prefix && j == tool.len()) {
            let mut keys: Vec<&String> = mm.keys().chain(tm.keys()).collect(); keys.sort(); keys.dedup();
            for k in keys {
                let a = mm.get(k).cloned().unwrap_or(Rat::zero());
                let b = tm.get(k).cloned().unwrap_or(Rat::zero());
                if !a.close(&b, &tol) { return Err(format!("automatic adjustment after row #{} ({:?} by {} settling {}): affiliate {k}: tool {} model {}", j - 1, t.act, t.af, t.sd, b, a)); }
            }
        }
    }
    if !prefix && i < model.len() { return Err(format!("tool stops after {j} rows; model continues with {}", describe(&model[i]))); }
    Ok(st)
}

#[derive(Clone, Copy)]
pub struct CmpWhat { pub shares: bool, pub acb: bool, pub gain: bool, pub sfl: bool, pub ratio: bool, pub adjustments: bool }
impl CmpWhat { pub fn all() -> CmpWhat { CmpWhat { shares: true, acb: true, gain: true, sfl: true, ratio: true, adjustments: true } } }

pub fn normalize_all(ds: &[TxDelta]) -> Vec<NRow> { ds.iter().map(normalize).collect() }
pub fn model_for(rows: &[crate::gen::HRow], opening: Option<(Rat, Rat)>) -> MResult {
    let m: Vec<crate::model::MRow> = rows.iter().map(|r| r.to_mrow()).collect();
    crate::model::run_security(&m, opening)
}
