//! Minimal arbitrary-precision integers and rationals (no bignum crate is available offline).
//! Self-tested against u128 and against vectors computed by python3 (see `selftest`).
use std::cmp::Ordering;
use std::fmt;

#[derive(Clone, PartialEq, Eq, Hash, Default)]
pub struct BigUint {
    // little-endian u32 limbs, no trailing zeros; empty = 0
    l: Vec<u32>,
}

impl BigUint {
    pub fn zero() -> Self { BigUint { l: vec![] } }
    pub fn one() -> Self { BigUint { l: vec![1] } }
    pub fn from_u64(v: u64) -> Self {
        let mut b = BigUint { l: vec![v as u32, (v >> 32) as u32] };
        b.trim();
        b
    }
    pub fn from_u128(v: u128) -> Self {
        let mut b = BigUint { l: vec![v as u32, (v >> 32) as u32, (v >> 64) as u32, (v >> 96) as u32] };
        b.trim();
        b
    }
    pub fn to_u128(&self) -> Option<u128> {
        if self.l.len() > 4 { return None; }
        let mut v = 0u128;
        for (i, x) in self.l.iter().enumerate() { v |= (*x as u128) << (32 * i); }
        Some(v)
    }
    fn trim(&mut self) { while let Some(0) = self.l.last() { self.l.pop(); } }
    pub fn is_zero(&self) -> bool { self.l.is_empty() }
    pub fn is_even(&self) -> bool { self.l.first().map(|x| x & 1 == 0).unwrap_or(true) }
    pub fn bits(&self) -> usize {
        match self.l.last() { None => 0, Some(t) => 32 * (self.l.len() - 1) + (32 - t.leading_zeros() as usize) }
    }
    pub fn cmp_mag(&self, o: &BigUint) -> Ordering {
        if self.l.len() != o.l.len() { return self.l.len().cmp(&o.l.len()); }
        for i in (0..self.l.len()).rev() {
            if self.l[i] != o.l[i] { return self.l[i].cmp(&o.l[i]); }
        }
        Ordering::Equal
    }
    pub fn add(&self, o: &BigUint) -> BigUint {
        let (a, b) = if self.l.len() >= o.l.len() { (self, o) } else { (o, self) };
        let mut r = Vec::with_capacity(a.l.len() + 1);
        let mut c = 0u64;
        for i in 0..a.l.len() {
            let s = a.l[i] as u64 + if i < b.l.len() { b.l[i] as u64 } else { 0 } + c;
            r.push(s as u32);
            c = s >> 32;
        }
        if c > 0 { r.push(c as u32); }
        BigUint { l: r }
    }
    /// self - o, requires self >= o
    pub fn sub(&self, o: &BigUint) -> BigUint {
        debug_assert!(self.cmp_mag(o) != Ordering::Less);
        let mut r = Vec::with_capacity(self.l.len());
        let mut borrow = 0i64;
        for i in 0..self.l.len() {
            let mut d = self.l[i] as i64 - borrow - if i < o.l.len() { o.l[i] as i64 } else { 0 };
            if d < 0 { d += 1 << 32; borrow = 1; } else { borrow = 0; }
            r.push(d as u32);
        }
        assert_eq!(borrow, 0, "BigUint::sub underflow");
        let mut b = BigUint { l: r };
        b.trim();
        b
    }
    pub fn mul(&self, o: &BigUint) -> BigUint {
        if self.is_zero() || o.is_zero() { return BigUint::zero(); }
        let mut r = vec![0u32; self.l.len() + o.l.len()];
        for i in 0..self.l.len() {
            let mut c = 0u64;
            let a = self.l[i] as u64;
            for j in 0..o.l.len() {
                let t = a * o.l[j] as u64 + r[i + j] as u64 + c;
                r[i + j] = t as u32;
                c = t >> 32;
            }
            let mut k = i + o.l.len();
            while c > 0 {
                let t = r[k] as u64 + c;
                r[k] = t as u32;
                c = t >> 32;
                k += 1;
            }
        }
        let mut b = BigUint { l: r };
        b.trim();
        b
    }
    pub fn mul_small(&self, m: u32) -> BigUint {
        if m == 0 || self.is_zero() { return BigUint::zero(); }
        let mut r = Vec::with_capacity(self.l.len() + 1);
        let mut c = 0u64;
        for x in &self.l {
            let t = *x as u64 * m as u64 + c;
            r.push(t as u32);
            c = t >> 32;
        }
        if c > 0 { r.push(c as u32); }
        BigUint { l: r }
    }
    pub fn divrem_small(&self, d: u32) -> (BigUint, u32) {
        assert!(d != 0);
        let mut q = vec![0u32; self.l.len()];
        let mut rem = 0u64;
        for i in (0..self.l.len()).rev() {
            let cur = (rem << 32) | self.l[i] as u64;
            q[i] = (cur / d as u64) as u32;
            rem = cur % d as u64;
        }
        let mut b = BigUint { l: q };
        b.trim();
        (b, rem as u32)
    }
    fn shl_bits(&self, s: u32) -> BigUint {
        // s < 32
        if s == 0 { return self.clone(); }
        let mut r = Vec::with_capacity(self.l.len() + 1);
        let mut c = 0u32;
        for x in &self.l {
            r.push((x << s) | c);
            c = x >> (32 - s);
        }
        if c > 0 { r.push(c); }
        BigUint { l: r }
    }
    fn shr_bits(&self, s: u32) -> BigUint {
        if s == 0 { return self.clone(); }
        let mut r = vec![0u32; self.l.len()];
        let mut c = 0u32;
        for i in (0..self.l.len()).rev() {
            r[i] = (self.l[i] >> s) | c;
            c = self.l[i] << (32 - s);
        }
        let mut b = BigUint { l: r };
        b.trim();
        b
    }
    /// Knuth algorithm D.
    pub fn divrem(&self, d: &BigUint) -> (BigUint, BigUint) {
        assert!(!d.is_zero(), "BigUint division by zero");
        if self.cmp_mag(d) == Ordering::Less { return (BigUint::zero(), self.clone()); }
        if d.l.len() == 1 {
            let (q, r) = self.divrem_small(d.l[0]);
            return (q, BigUint::from_u64(r as u64));
        }
        let s = d.l.last().unwrap().leading_zeros();
        let v = d.shl_bits(s);
        let mut u = self.shl_bits(s).l;
        let n = v.l.len();
        if u.len() == self.l.len() { u.push(0); }
        // ensure u has m+n+1 limbs
        let m = u.len() - n - 1;
        let mut q = vec![0u32; m + 1];
        let b: u64 = 1 << 32;
        let vn1 = v.l[n - 1] as u64;
        let vn2 = v.l[n - 2] as u64;
        for j in (0..=m).rev() {
            let num = ((u[j + n] as u64) << 32) | u[j + n - 1] as u64;
            let mut qhat = num / vn1;
            let mut rhat = num % vn1;
            while qhat >= b || qhat * vn2 > ((rhat << 32) | u[j + n - 2] as u64) {
                qhat -= 1;
                rhat += vn1;
                if rhat >= b { break; }
            }
            // multiply and subtract
            let mut borrow: i64 = 0;
            let mut carry: u64 = 0;
            for i in 0..n {
                let p = qhat * v.l[i] as u64 + carry;
                carry = p >> 32;
                let t = u[i + j] as i64 - borrow - (p & 0xffff_ffff) as i64;
                if t < 0 { u[i + j] = (t + (1i64 << 32)) as u32; borrow = 1; } else { u[i + j] = t as u32; borrow = 0; }
            }
            let t = u[j + n] as i64 - borrow - carry as i64;
            if t < 0 {
                u[j + n] = (t + (1i64 << 32)) as u32;
                // add back
                qhat -= 1;
                let mut c = 0u64;
                for i in 0..n {
                    let s2 = u[i + j] as u64 + v.l[i] as u64 + c;
                    u[i + j] = s2 as u32;
                    c = s2 >> 32;
                }
                u[j + n] = (u[j + n] as u64 + c) as u32;
            } else {
                u[j + n] = t as u32;
            }
            q[j] = qhat as u32;
        }
        let mut qb = BigUint { l: q };
        qb.trim();
        u.truncate(n);
        let mut rb = BigUint { l: u };
        rb.trim();
        (qb, rb.shr_bits(s))
    }
    pub fn gcd(&self, o: &BigUint) -> BigUint {
        let mut a = self.clone();
        let mut b = o.clone();
        while !b.is_zero() {
            let (_, r) = a.divrem(&b);
            a = b;
            b = r;
        }
        a
    }
    pub fn pow10(e: u32) -> BigUint {
        let mut r = BigUint::one();
        let mut left = e;
        while left >= 9 { r = r.mul_small(1_000_000_000); left -= 9; }
        for _ in 0..left { r = r.mul_small(10); }
        r
    }
    pub fn parse_dec(s: &str) -> Option<BigUint> {
        if s.is_empty() { return None; }
        let mut r = BigUint::zero();
        for ch in s.bytes() {
            if !ch.is_ascii_digit() { return None; }
            r = r.mul_small(10).add(&BigUint::from_u64((ch - b'0') as u64));
        }
        Some(r)
    }
    pub fn to_dec(&self) -> String {
        if self.is_zero() { return "0".into(); }
        let mut parts = vec![];
        let mut cur = self.clone();
        while !cur.is_zero() {
            let (q, r) = cur.divrem_small(1_000_000_000);
            parts.push(r);
            cur = q;
        }
        let mut s = format!("{}", parts.pop().unwrap());
        while let Some(p) = parts.pop() { s += &format!("{:09}", p); }
        s
    }
}

impl fmt::Debug for BigUint { fn fmt(&self, f: &mut fmt::Formatter<'_>) -> fmt::Result { write!(f, "{}", self.to_dec()) } }

/// Exact rational number, always reduced, denominator > 0.
#[derive(Clone, PartialEq, Eq, Hash)]
pub struct Rat {
    neg: bool,
    n: BigUint,
    d: BigUint,
}

impl Rat {
    pub fn zero() -> Rat { Rat { neg: false, n: BigUint::zero(), d: BigUint::one() } }
    pub fn one() -> Rat { Rat::from_i64(1) }
    pub fn from_i64(v: i64) -> Rat { Rat { neg: v < 0, n: BigUint::from_u64(v.unsigned_abs()), d: BigUint::one() } }
    pub fn new(neg: bool, n: BigUint, d: BigUint) -> Rat {
        assert!(!d.is_zero(), "Rat with zero denominator");
        if n.is_zero() { return Rat::zero(); }
        let g = n.gcd(&d);
        let (n2, d2) = if g == BigUint::one() { (n, d) } else { (n.divrem(&g).0, d.divrem(&g).0) };
        Rat { neg, n: n2, d: d2 }
    }
    pub fn ratio(n: i64, d: i64) -> Rat {
        assert!(d != 0);
        Rat::new((n < 0) != (d < 0), BigUint::from_u64(n.unsigned_abs()), BigUint::from_u64(d.unsigned_abs()))
    }
    /// Parses `[-+]?digits[.digits]` exactly.
    pub fn parse(s: &str) -> Option<Rat> {
        let s = s.trim();
        let (neg, body) = if let Some(r) = s.strip_prefix('-') { (true, r) } else if let Some(r) = s.strip_prefix('+') { (false, r) } else { (false, s) };
        let (ip, fp) = match body.find('.') { Some(i) => (&body[..i], &body[i + 1..]), None => (body, "") };
        if ip.is_empty() && fp.is_empty() { return None; }
        let digits = format!("{}{}", if ip.is_empty() { "0" } else { ip }, fp);
        let n = BigUint::parse_dec(&digits)?;
        Some(Rat::new(neg, n, BigUint::pow10(fp.len() as u32)))
    }
    pub fn from_decimal(d: &rust_decimal::Decimal) -> Rat {
        let m = d.mantissa();
        Rat::new(m < 0, BigUint::from_u128(m.unsigned_abs()), BigUint::pow10(d.scale()))
    }
    pub fn is_zero(&self) -> bool { self.n.is_zero() }
    pub fn is_neg(&self) -> bool { self.neg && !self.n.is_zero() }
    pub fn is_pos(&self) -> bool { !self.neg && !self.n.is_zero() }
    pub fn is_integer(&self) -> bool { self.d == BigUint::one() }
    pub fn neg(&self) -> Rat { if self.is_zero() { self.clone() } else { Rat { neg: !self.neg, n: self.n.clone(), d: self.d.clone() } } }
    pub fn abs(&self) -> Rat { Rat { neg: false, n: self.n.clone(), d: self.d.clone() } }
    pub fn add(&self, o: &Rat) -> Rat {
        let a = self.n.mul(&o.d);
        let b = o.n.mul(&self.d);
        let d = self.d.mul(&o.d);
        if self.neg == o.neg { Rat::new(self.neg, a.add(&b), d) } else {
            match a.cmp_mag(&b) {
                Ordering::Equal => Rat::zero(),
                Ordering::Greater => Rat::new(self.neg, a.sub(&b), d),
                Ordering::Less => Rat::new(o.neg, b.sub(&a), d),
            }
        }
    }
    pub fn sub(&self, o: &Rat) -> Rat { self.add(&o.neg()) }
    pub fn mul(&self, o: &Rat) -> Rat { Rat::new(self.neg != o.neg, self.n.mul(&o.n), self.d.mul(&o.d)) }
    pub fn div(&self, o: &Rat) -> Rat {
        assert!(!o.is_zero(), "Rat division by zero");
        Rat::new(self.neg != o.neg, self.n.mul(&o.d), self.d.mul(&o.n))
    }
    pub fn cmp(&self, o: &Rat) -> Ordering {
        match (self.is_neg(), o.is_neg()) {
            (true, false) => Ordering::Less,
            (false, true) => Ordering::Greater,
            (sn, _) => {
                let c = self.n.mul(&o.d).cmp_mag(&o.n.mul(&self.d));
                if sn { c.reverse() } else { c }
            }
        }
    }
    pub fn lt(&self, o: &Rat) -> bool { self.cmp(o) == Ordering::Less }
    pub fn le(&self, o: &Rat) -> bool { self.cmp(o) != Ordering::Greater }
    pub fn gt(&self, o: &Rat) -> bool { self.cmp(o) == Ordering::Greater }
    pub fn ge(&self, o: &Rat) -> bool { self.cmp(o) != Ordering::Less }
    pub fn min(&self, o: &Rat) -> Rat { if self.le(o) { self.clone() } else { o.clone() } }
    pub fn max(&self, o: &Rat) -> Rat { if self.ge(o) { self.clone() } else { o.clone() } }
    /// floor(self * 10^dp) / 10^dp, rendered as decimal string (towards -inf for negatives).
    pub fn floor_dp(&self, dp: u32) -> Rat {
        let scaled = self.n.mul(&BigUint::pow10(dp));
        let (q, r) = scaled.divrem(&self.d);
        let q = if self.is_neg() && !r.is_zero() { q.add(&BigUint::one()) } else { q };
        Rat::new(self.neg, q, BigUint::pow10(dp))
    }
    /// Round half away from zero to `dp` places.
    pub fn round_dp_half_away(&self, dp: u32) -> Rat {
        let scaled = self.n.mul(&BigUint::pow10(dp)).mul_small(2).add(&self.d);
        let (q, _) = scaled.divrem(&self.d.mul_small(2));
        Rat::new(self.neg, q, BigUint::pow10(dp))
    }
    /// Exact decimal string if the value terminates within `max_dp` places.
    pub fn to_decimal_string(&self, max_dp: u32) -> Option<String> {
        for dp in 0..=max_dp {
            let scaled = self.n.mul(&BigUint::pow10(dp));
            let (q, r) = scaled.divrem(&self.d);
            if r.is_zero() {
                let digits = q.to_dec();
                let s = if dp == 0 { digits } else {
                    let padded = if digits.len() <= dp as usize { format!("{}{}", "0".repeat(dp as usize + 1 - digits.len()), digits) } else { digits };
                    let (a, b) = padded.split_at(padded.len() - dp as usize);
                    format!("{a}.{b}")
                };
                return Some(if self.is_neg() { format!("-{s}") } else { s });
            }
        }
        None
    }
    /// Approximate rendering for messages.
    pub fn approx(&self) -> String {
        match self.to_decimal_string(12) {
            Some(s) => s,
            None => {
                let f = self.floor_dp(18);
                format!("{}…", f.to_decimal_string(18).unwrap())
            }
        }
    }
    /// |self - o| <= tol
    pub fn close(&self, o: &Rat, tol: &Rat) -> bool { self.sub(o).abs().le(tol) }
    pub fn num_bits(&self) -> usize { self.n.bits().max(self.d.bits()) }
}

impl fmt::Debug for Rat { fn fmt(&self, f: &mut fmt::Formatter<'_>) -> fmt::Result { write!(f, "{}", self.approx()) } }
impl fmt::Display for Rat { fn fmt(&self, f: &mut fmt::Formatter<'_>) -> fmt::Result { write!(f, "{}", self.approx()) } }

pub fn tol9() -> Rat { Rat::new(false, BigUint::one(), BigUint::pow10(9)) }

/// Self-test: u128 differential with a deterministic xorshift, and python vectors if present.
pub fn selftest(vectors_path: Option<&str>) -> Result<usize, String> {
    let mut x: u64 = 0x9E3779B97F4A7C15;
    let mut next = || { x ^= x << 13; x ^= x >> 7; x ^= x << 17; x };
    let mut n = 0usize;
    for i in 0..20000 {
        let a = ((next() as u128) << 64 | next() as u128) >> (next() % 100);
        let b = (((next() as u128) << 64 | next() as u128) >> (next() % 120)).max(1);
        let (ba, bb) = (BigUint::from_u128(a), BigUint::from_u128(b));
        let (q, r) = ba.divrem(&bb);
        if q.to_u128() != Some(a / b) || r.to_u128() != Some(a % b) { return Err(format!("divrem mismatch {a} {b} (iter {i})")); }
        let (sa, sb) = (a >> 64, b >> 64);
        if BigUint::from_u128(sa).mul(&BigUint::from_u128(sb)).to_u128() != Some(sa * sb) { return Err(format!("mul mismatch {sa} {sb}")); }
        if let Some(s) = a.checked_add(b) { if ba.add(&bb).to_u128() != Some(s) { return Err("add mismatch".into()); } }
        if a >= b && ba.sub(&bb).to_u128() != Some(a - b) { return Err("sub mismatch".into()); }
        if BigUint::parse_dec(&a.to_string()).map(|v| v.to_dec()) != Some(a.to_string()) { return Err("dec roundtrip".into()); }
        // multi-limb: (a*b + r') / b == a
        let big = ba.mul(&bb).mul(&bb).add(&BigUint::from_u128(b - 1));
        let (q2, r2) = big.divrem(&bb.mul(&bb));
        if b > 1 && (q2 != ba || r2.to_u128() != Some(b - 1)) { return Err(format!("wide divrem mismatch {a} {b}")); }
        n += 1;
    }
    if let Some(p) = vectors_path {
        let text = std::fs::read_to_string(p).map_err(|e| format!("{p}: {e}"))?;
        for (ln, line) in text.lines().enumerate() {
            let f: Vec<&str> = line.split_whitespace().collect();
            if f.len() != 8 { continue; }
            // a b  a+b a-b a*b a/b cmp floor10(a)
            let a = parse_frac(f[0])?; let b = parse_frac(f[1])?;
            let chk = |name: &str, got: Rat, want: &str| -> Result<(), String> {
                let w = parse_frac(want)?;
                if got != w { Err(format!("vector line {}: {name}: got {:?}/{:?} want {want}", ln + 1, got.n, got.d)) } else { Ok(()) }
            };
            chk("add", a.add(&b), f[2])?; chk("sub", a.sub(&b), f[3])?; chk("mul", a.mul(&b), f[4])?;
            if !b.is_zero() { chk("div", a.div(&b), f[5])?; }
            let c = match a.cmp(&b) { Ordering::Less => "-1", Ordering::Equal => "0", Ordering::Greater => "1" };
            if c != f[6] { return Err(format!("vector line {}: cmp", ln + 1)); }
            chk("floor10", a.floor_dp(10), f[7])?;
            n += 1;
        }
    }
    Ok(n)
}

fn parse_frac(s: &str) -> Result<Rat, String> {
    let (n, d) = match s.find('/') { Some(i) => (&s[..i], &s[i + 1..]), None => (s, "1") };
    let neg = n.starts_with('-');
    let nn = BigUint::parse_dec(n.trim_start_matches('-')).ok_or(format!("bad frac {s}"))?;
    let dd = BigUint::parse_dec(d).ok_or(format!("bad frac {s}"))?;
    Ok(Rat::new(neg, nn, dd))
}
