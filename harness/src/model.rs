//! Reference model of the ledger (C01), superficial-loss rule (C02), apportioning (C03) and
//! rejection causes (C04), written from the property statements in exact rational arithmetic.
//! Shares no code with /repo.
use crate::bigrat::Rat;
use std::collections::BTreeMap;
use time::{Date, Duration};

#[derive(Clone, Copy, Debug, PartialEq, Eq, Hash)]
pub enum Act { Buy, Sell, Roc, Sfla, Split }
impl Act {
    pub fn csv(&self) -> &'static str { match self { Act::Buy => "Buy", Act::Sell => "Sell", Act::Roc => "RoC", Act::Sfla => "SfLA", Act::Split => "Split" } }
}

/// Affiliate identity as the documentation describes it: case-insensitive name, "(R)" marks registered.
pub fn affiliate_id(spelling: &str) -> (String, bool) {
    let reg = spelling.contains("(R)") || spelling.contains("(r)");
    let mut s = spelling.replace("(R)", " ").replace("(r)", " ");
    while s.contains("  ") { s = s.replace("  ", " "); }
    let s = s.trim().to_lowercase();
    let base = if s.is_empty() { "default".to_string() } else { s };
    (if reg { format!("{base} (R)") } else { base }, reg)
}

/// One input row of one security, as the model sees it (all amounts exact).
#[derive(Clone, Debug)]
pub struct MRow {
    pub sd: Date,
    pub td: Date,
    pub act: Act,
    /// affiliate id; for a split `None` means "all affiliates"
    pub af: Option<String>,
    pub shares: Rat,
    pub price: Rat,
    pub comm: Rat,
    /// CAD per unit of the trade currency
    pub rate: Rat,
    /// CAD per unit of the commission currency
    pub comm_rate: Rat,
    /// (post, pre, whole-number-only)
    pub split: (Rat, Rat, bool),
    /// user-declared superficial loss (<= 0) and force flag
    pub sfl: Option<(Rat, bool)>,
}

impl MRow {
    pub fn blank(sd: Date, td: Date, act: Act, af: Option<String>) -> MRow {
        MRow { sd, td, act, af, shares: Rat::zero(), price: Rat::zero(), comm: Rat::zero(), rate: Rat::one(), comm_rate: Rat::one(), split: (Rat::one(), Rat::one(), false), sfl: None }
    }
}

#[derive(Clone, Debug, PartialEq, Eq)]
pub enum Cause {
    OverSale,
    /// an over-sale that lies inside the 30-day look-ahead of an earlier loss sale
    OverSaleSeenFromWindow { loss_sale_src: usize },
    RocExceedsAcb,
    RocOnRegistered,
    SflaOnRegistered,
    FractionalReverseSplit,
    SflOnNonLoss,
    SflMismatch,
}

#[derive(Clone, Debug)]
pub struct MDelta {
    /// index into the input rows; None for an automatic adjustment
    pub src: Option<usize>,
    pub af: String,
    pub registered: bool,
    pub act: Act,
    pub sd: Date,
    pub share_bal: Rat,
    pub all_bal: Rat,
    pub acb: Option<Rat>,
    pub gain: Option<Rat>,
    /// denied loss (<= 0); zero when the sale is not superficial
    pub sfl: Rat,
    /// (numerator, denominator) of the superficial ratio, when superficial by computation
    pub ratio: Option<(Rat, Rat)>,
    /// buying affiliates hold fewer shares at the end of the window than the denied shares
    pub flagged: bool,
    /// computed (automatic) superficial loss even if the user overrode it
    pub computed_sfl: Rat,
    /// loss before denial (negative) for loss sales
    pub raw_gain: Option<Rat>,
    /// classification hints for evidence
    pub limiting: Option<&'static str>,
    /// amount of an automatic adjustment row
    pub adj_amount: Option<Rat>,
    /// window facts of a loss sale (exact)
    pub win: Option<WinInfo>,
}

#[derive(Clone, Debug)]
pub struct WinInfo { pub acquired: Rat, pub held: Rat, pub buyers_eop: Vec<(String, Rat)>, pub split_after_sale_in_window: bool, pub split_before_sale_in_window: bool }

#[derive(Clone, Debug)]
pub struct MErr { pub src: usize, pub cause: Cause, pub stop_before_src: usize }

#[derive(Clone, Debug, Default)]
pub struct MResult { pub rows: Vec<MDelta>, pub err: Option<MErr> }

#[derive(Clone, Debug)]
struct Ev { src: usize, row: MRow, af: String, reg: bool }

/// Window information for a loss sale at position `i` of `evs`, given balances *after* the sale.
struct Window { acquired: Rat, held: Rat, buyers: BTreeMap<String, bool>, eop: BTreeMap<String, Rat>, oversale_at: Option<usize>, split_fwd: bool, split_bwd: bool }

fn window(evs: &[Ev], i: usize, bal_after_sale: &BTreeMap<String, Rat>) -> Window {
    let sd = evs[i].row.sd;
    let first = sd - Duration::days(30);
    let last = sd + Duration::days(30);
    let mut acquired = Rat::zero();
    let (mut split_fwd, mut split_bwd) = (false, false);
    let mut buyers: BTreeMap<String, bool> = BTreeMap::new();
    // backwards: acquisitions restated in the units of the sale's split period
    let mut fac: BTreeMap<String, Rat> = BTreeMap::new();
    for j in (0..i).rev() {
        let e = &evs[j];
        if e.row.sd < first { break; }
        let f = fac.get(&e.af).cloned().unwrap_or(Rat::one());
        match e.row.act {
            Act::Buy => { acquired = acquired.add(&e.row.shares.mul(&f)); buyers.insert(e.af.clone(), e.reg); }
            Act::Split => { split_bwd = true; fac.insert(e.af.clone(), f.mul(&e.row.split.0).div(&e.row.split.1)); }
            _ => {}
        }
    }
    // forwards: simulate holdings, everything restated into sale-time units
    let mut eop: BTreeMap<String, Rat> = bal_after_sale.clone();
    let mut fac: BTreeMap<String, Rat> = BTreeMap::new(); // current units per sale-time unit
    let mut oversale_at = None;
    for j in (i + 1)..evs.len() {
        let e = &evs[j];
        if e.row.sd > last { break; }
        let f = fac.get(&e.af).cloned().unwrap_or(Rat::one());
        match e.row.act {
            Act::Buy => {
                let adj = e.row.shares.div(&f);
                let cur = eop.get(&e.af).cloned().unwrap_or(Rat::zero());
                eop.insert(e.af.clone(), cur.add(&adj));
                acquired = acquired.add(&adj);
                buyers.insert(e.af.clone(), e.reg);
            }
            Act::Sell => {
                let adj = e.row.shares.div(&f);
                let cur = eop.get(&e.af).cloned().unwrap_or(Rat::zero());
                let n = cur.sub(&adj);
                if n.is_neg() { oversale_at = Some(j); break; }
                eop.insert(e.af.clone(), n);
            }
            Act::Split => { split_fwd = true; fac.insert(e.af.clone(), f.mul(&e.row.split.0).div(&e.row.split.1)); }
            _ => {}
        }
    }
    let mut held = Rat::zero();
    for v in eop.values() { held = held.add(v); }
    Window { acquired, held, buyers, eop, oversale_at, split_fwd, split_bwd }
}

/// Run the model over the rows of ONE security (in input order). `opening` = (shares, total cost)
/// of the default affiliate.
pub fn run_security(rows: &[MRow], opening: Option<(Rat, Rat)>) -> MResult {
    // order: settlement date, then input position
    let mut idx: Vec<usize> = (0..rows.len()).collect();
    idx.sort_by_key(|&i| (rows[i].sd, i));
    // affiliates of this security (a split for everyone is expanded over them, ordered by id)
    let mut afs: Vec<String> = vec![];
    for r in rows { if let Some(a) = &r.af { if !afs.contains(a) { afs.push(a.clone()); } } }
    // an opening position is a holding of the default affiliate (C16: it equals an opening purchase)
    if let Some((s, _)) = &opening { if s.is_pos() && !afs.iter().any(|a| a == "default") { afs.push("default".into()); } }
    if afs.is_empty() { afs.push("default".into()); }
    afs.sort();
    let mut evs: Vec<Ev> = vec![];
    for &i in &idx {
        let r = &rows[i];
        match (&r.act, &r.af) {
            (Act::Split, None) => for a in &afs { evs.push(Ev { src: i, row: r.clone(), af: a.clone(), reg: a.ends_with("(R)") }); },
            (_, af) => { let a = af.clone().unwrap_or("default".into()); evs.push(Ev { src: i, row: r.clone(), reg: a.ends_with("(R)"), af: a }); }
        }
    }
    let mut bal: BTreeMap<String, Rat> = BTreeMap::new();
    let mut acb: BTreeMap<String, Rat> = BTreeMap::new();
    if let Some((s, c)) = opening { bal.insert("default".into(), s); acb.insert("default".into(), c); }
    let mut out: Vec<MDelta> = vec![];
    let sum = |b: &BTreeMap<String, Rat>| { let mut t = Rat::zero(); for v in b.values() { t = t.add(v); } t };
    let milli = Rat::ratio(1, 1000);
    for i in 0..evs.len() {
        let e = &evs[i];
        let r = &e.row;
        let b = bal.get(&e.af).cloned().unwrap_or(Rat::zero());
        let a = acb.get(&e.af).cloned().unwrap_or(Rat::zero());
        let fail = |cause: Cause, src: usize, out: Vec<MDelta>, stop: usize| MResult { rows: out, err: Some(MErr { src, cause, stop_before_src: stop }) };
        let mut d = MDelta { src: Some(e.src), af: e.af.clone(), registered: e.reg, act: r.act, sd: r.sd, share_bal: b.clone(), all_bal: Rat::zero(), acb: None, gain: None, sfl: Rat::zero(), ratio: None, flagged: false, computed_sfl: Rat::zero(), raw_gain: None, limiting: None, adj_amount: None, win: None };
        let mut injected: Vec<(String, Rat)> = vec![];
        match r.act {
            Act::Buy => {
                bal.insert(e.af.clone(), b.add(&r.shares));
                if !e.reg { acb.insert(e.af.clone(), a.add(&r.shares.mul(&r.price).mul(&r.rate)).add(&r.comm.mul(&r.comm_rate))); }
            }
            Act::Sell => {
                if r.shares.gt(&b) { return fail(Cause::OverSale, e.src, out, e.src); }
                let nb = b.sub(&r.shares);
                bal.insert(e.af.clone(), nb.clone());
                if !e.reg {
                    let cost = a.mul(&r.shares).div(&b);
                    let g = r.shares.mul(&r.price).mul(&r.rate).sub(&r.comm.mul(&r.comm_rate)).sub(&cost);
                    acb.insert(e.af.clone(), a.sub(&cost));
                    let mut reported = g.clone();
                    if g.is_neg() {
                        d.raw_gain = Some(g.clone());
                        let w = window(&evs, i, &bal);
                        if let Some(j) = w.oversale_at { return fail(Cause::OverSaleSeenFromWindow { loss_sale_src: e.src }, evs[j].src, out, e.src); }
                        let mut computed = Rat::zero();
                        d.win = Some(WinInfo { acquired: w.acquired.clone(), held: w.held.clone(), buyers_eop: w.buyers.keys().map(|b| (b.clone(), w.eop.get(b).cloned().unwrap_or(Rat::zero()))).collect(), split_after_sale_in_window: w.split_fwd, split_before_sale_in_window: w.split_bwd });
                        if w.acquired.is_pos() && w.held.is_pos() {
                            let m = r.shares.min(&w.acquired).min(&w.held);
                            d.limiting = Some(if m == r.shares { "sold" } else if m == w.acquired { "acquired" } else { "held" });
                            computed = g.mul(&m).div(&r.shares);
                            d.ratio = Some((m.clone(), r.shares.clone()));
                            // apportion over buying affiliates by end-of-window holdings
                            let mut tot = Rat::zero();
                            for (bid, _) in &w.buyers { tot = tot.add(&w.eop.get(bid).cloned().unwrap_or(Rat::zero())); }
                            d.flagged = tot.lt(&m);
                            if r.sfl.is_none() && tot.is_pos() {
                                for (bid, breg) in &w.buyers {
                                    let eb = w.eop.get(bid).cloned().unwrap_or(Rat::zero());
                                    if eb.is_pos() && !*breg { injected.push((bid.clone(), computed.neg().mul(&eb).div(&tot))); }
                                }
                            }
                        }
                        d.computed_sfl = computed.clone();
                        match &r.sfl {
                            Some((v, force)) => {
                                if !*force && computed.sub(v).abs().gt(&milli) { return fail(Cause::SflMismatch, e.src, out, e.src); }
                                d.flagged = false;
                                d.ratio = None;
                                d.sfl = v.clone();
                                reported = g.sub(v);
                            }
                            None => { d.sfl = computed.clone(); reported = g.sub(&computed); }
                        }
                    } else if r.sfl.is_some() {
                        return fail(Cause::SflOnNonLoss, e.src, out, e.src);
                    }
                    d.gain = Some(reported);
                }
            }
            Act::Roc => {
                if e.reg { return fail(Cause::RocOnRegistered, e.src, out, e.src); }
                let red = r.price.mul(&b).mul(&r.rate);
                if red.gt(&a) { return fail(Cause::RocExceedsAcb, e.src, out, e.src); }
                acb.insert(e.af.clone(), a.sub(&red));
            }
            Act::Sfla => {
                if e.reg { return fail(Cause::SflaOnRegistered, e.src, out, e.src); }
                acb.insert(e.af.clone(), a.add(&r.shares.mul(&r.price)));
            }
            Act::Split => {
                let nb = b.mul(&r.split.0).div(&r.split.1);
                if r.split.1.gt(&r.split.0) && r.split.2 && !nb.is_integer() { return fail(Cause::FractionalReverseSplit, e.src, out, e.src); }
                bal.insert(e.af.clone(), nb);
            }
        }
        d.share_bal = bal.get(&e.af).cloned().unwrap_or(Rat::zero());
        d.all_bal = sum(&bal);
        d.acb = if e.reg { None } else { Some(acb.get(&e.af).cloned().unwrap_or(Rat::zero())) };
        out.push(d);
        for (bid, amt) in injected {
            let a0 = acb.get(&bid).cloned().unwrap_or(Rat::zero());
            let a1 = a0.add(&amt);
            acb.insert(bid.clone(), a1.clone());
            out.push(MDelta { src: None, af: bid.clone(), registered: false, act: Act::Sfla, sd: r.sd, share_bal: bal.get(&bid).cloned().unwrap_or(Rat::zero()), all_bal: sum(&bal), acb: Some(a1), gain: None, sfl: Rat::zero(), ratio: None, flagged: false, computed_sfl: Rat::zero(), raw_gain: None, limiting: None, adj_amount: Some(amt), win: None });
        }
    }
    MResult { rows: out, err: None }
}

pub fn selftest() -> Result<usize, String> {
    use time::macros::date;
    // README-style example: buy 10 @ 10 + 1 commission, sell 5 @ 12 => gain = 60 - 50.5 = 9.5
    let mut b = MRow::blank(date!(2020 - 01 - 03), date!(2020 - 01 - 01), Act::Buy, Some("default".into()));
    b.shares = Rat::from_i64(10); b.price = Rat::from_i64(10); b.comm = Rat::from_i64(1);
    let mut s = MRow::blank(date!(2020 - 06 - 03), date!(2020 - 06 - 01), Act::Sell, Some("default".into()));
    s.shares = Rat::from_i64(5); s.price = Rat::from_i64(12);
    let r = run_security(&[b.clone(), s.clone()], None);
    if r.err.is_some() || r.rows.len() != 2 { return Err("basic history".into()); }
    if r.rows[1].gain != Some(Rat::parse("9.5").unwrap()) { return Err(format!("gain {:?}", r.rows[1].gain)); }
    // superficial: sell at a loss, rebuy 10 days later
    let mut s2 = s.clone(); s2.price = Rat::from_i64(8); // proceeds 40, cost 50.5 -> loss 10.5
    let mut b2 = b.clone(); b2.sd = date!(2020 - 06 - 13); b2.td = b2.sd; b2.shares = Rat::from_i64(2); b2.comm = Rat::zero();
    let r = run_security(&[b.clone(), s2.clone(), b2.clone()], None);
    // min(5 sold, 2 acquired, 7 held)/5 * -10.5 = -4.2
    if r.rows[1].sfl != Rat::parse("-4.2").unwrap() { return Err(format!("sfl {:?}", r.rows[1].sfl)); }
    if r.rows.len() != 4 || r.rows[2].src.is_some() { return Err("auto adjustment row".into()); }
    if r.rows[1].gain != Some(Rat::parse("-6.3").unwrap()) { return Err("gain after denial".into()); }
    // day 31 is outside
    let mut b3 = b2.clone(); b3.sd = date!(2020 - 07 - 04); b3.td = b3.sd;
    let r = run_security(&[b.clone(), s2.clone(), b3], None);
    if !r.rows[1].sfl.is_zero() { return Err("day 31 must be outside".into()); }
    let mut b4 = b2.clone(); b4.sd = date!(2020 - 07 - 03); b4.td = b4.sd;
    let r = run_security(&[b.clone(), s2.clone(), b4], None);
    if r.rows[1].sfl.is_zero() { return Err("day 30 must be inside".into()); }
    // over-sale
    let mut s3 = s.clone(); s3.shares = Rat::from_i64(11);
    let r = run_security(&[b.clone(), s3], None);
    if r.err.as_ref().map(|e| &e.cause) != Some(&Cause::OverSale) { return Err("oversale".into()); }
    if affiliate_id(" (r) Spouse ").0 != "spouse (R)" || affiliate_id("").0 != "default" || affiliate_id("My  Kid").0 != "my kid" { return Err("affiliate ids".into()); }
    Ok(6)
}
