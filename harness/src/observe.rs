//! In-process drivers around acb's public entry points (no hooks needed).
use crate::engine::{guard, PanicInfo};
use acb::app::outfmt::model::AcbWriter;
use acb::app::{run_acb_app_summary_to_model, run_acb_app_to_delta_models, run_acb_app_to_render_model, run_acb_app_to_writer, AppRenderResult};
use acb::fx::io::{pub_testlib::MockRemoteRateLoader, InMemoryRatesCache, RateLoader};
use acb::fx::DailyRate;
use acb::portfolio::io::tx_csv::TxCsvParseOptions;
use acb::portfolio::{PortfolioSecurityStatus, TxDelta};
use acb::util::rc::RcRefCellT;
use acb::util::rw::{DescribedReader, WriteHandle};
use rust_decimal::Decimal;
use std::collections::{BTreeMap, HashMap};
use time::{Date, Month};

pub fn far_today() -> Date { Date::from_calendar_date(2050, Month::January, 1).unwrap() }

/// Reset process-global state of acb so that a case is a pure function of its input.
pub fn reset_globals(today: Date) {
    *acb::portfolio::AffiliateDedupTable::global_table() = acb::portfolio::AffiliateDedupTable::new();
    acb::util::date::set_todays_date_for_test(today);
}

/// Deterministic synthetic Bank of Canada rate for a date: published on weekdays only.
/// The value is a pure function of the date so the model can recompute it.
pub fn synthetic_rate(d: Date) -> Option<Decimal> {
    use time::Weekday::*;
    match d.weekday() { Saturday | Sunday => None, _ => {
        let k = (d.to_julian_day() as i64).rem_euclid(400);
        Some(Decimal::new(10000 + k * 10 + 7, 4)) // 1.0007 .. 1.3997
    } }
}

/// The rate acb is documented to use for `d`: that day's, else the latest within 7 days before.
pub fn synthetic_effective_rate(d: Date) -> Decimal {
    let mut x = d;
    loop { if let Some(r) = synthetic_rate(x) { return r; } x = x.previous_day().unwrap(); }
}

pub fn synthetic_loader(years: std::ops::RangeInclusive<i32>) -> RateLoader {
    let mut m: HashMap<u32, Vec<DailyRate>> = HashMap::new();
    for y in years {
        let mut v = vec![];
        let mut d = Date::from_calendar_date(y, Month::January, 1).unwrap();
        while d.year() == y { if let Some(r) = synthetic_rate(d) { v.push(DailyRate::new(d, r)); } d = d.next_day().unwrap(); }
        m.insert(y as u32, v);
    }
    RateLoader::new(false, Box::new(InMemoryRatesCache::new()), Box::new(MockRemoteRateLoader { remote_year_rates: RcRefCellT::new(m) }), WriteHandle::empty_write_handle())
}

pub fn empty_loader() -> RateLoader {
    RateLoader::new(false, Box::new(InMemoryRatesCache::new()), Box::new(MockRemoteRateLoader { remote_year_rates: RcRefCellT::new(HashMap::new()) }), WriteHandle::empty_write_handle())
}

pub fn readers(files: &[(String, String)]) -> Vec<DescribedReader> {
    files.iter().map(|(n, t)| DescribedReader::from_string(n.clone(), t.clone())).collect()
}

pub struct SecResult { pub deltas: Vec<TxDelta>, pub err: Option<String> }

#[derive(Clone, Debug, Default)]
pub struct RunOpts { pub symbol_base: Vec<String>, pub usd_years: Option<(i32, i32)>, pub date_fmt: Option<String>,
    /// the rate cache starts out as an earlier run on this day would have left it (every published rate before that day, nothing after)
    pub stale_cache_until: Option<Date>,
    /// --force-download over a cache whose every rate is wrong (an old, hand-edited or corrupted cache): nothing of it may be used
    pub forced_over_wrong_cache: bool }

pub enum RunErr { Panic(PanicInfo), Run(String), BadInit(String) }

pub fn loader_for(o: &RunOpts) -> RateLoader {
    if let (Some((a, b)), true) = (o.usd_years, o.forced_over_wrong_cache) {
        let mut remote: HashMap<u32, Vec<DailyRate>> = HashMap::new();
        let mut cached: HashMap<u32, Vec<DailyRate>> = HashMap::new();
        for y in a..=b {
            let mut d = Date::from_calendar_date(y, Month::January, 1).unwrap();
            let (mut all, mut wrong) = (vec![], vec![]);
            while d.year() == y { if let Some(r) = synthetic_rate(d) { all.push(DailyRate::new(d, r)); wrong.push(DailyRate::new(d, r + rust_decimal::Decimal::new(7, 2))); } d = d.next_day().unwrap(); }
            remote.insert(y as u32, all);
            cached.insert(y as u32, wrong);
        }
        return RateLoader::new(true, Box::new(InMemoryRatesCache { rates_by_year: RcRefCellT::new(cached) }), Box::new(MockRemoteRateLoader { remote_year_rates: RcRefCellT::new(remote) }), WriteHandle::empty_write_handle());
    }
    match (o.usd_years, o.stale_cache_until) {
        (Some((a, b)), Some(until)) => {
            let mut remote: HashMap<u32, Vec<DailyRate>> = HashMap::new();
            let mut cached: HashMap<u32, Vec<DailyRate>> = HashMap::new();
            for y in a..=b {
                let mut d = Date::from_calendar_date(y, Month::January, 1).unwrap();
                let (mut all, mut old) = (vec![], vec![]);
                while d.year() == y { if let Some(r) = synthetic_rate(d) { all.push(DailyRate::new(d, r)); if d < until { old.push(DailyRate::new(d, r)); } } d = d.next_day().unwrap(); }
                remote.insert(y as u32, all);
                if !old.is_empty() { cached.insert(y as u32, old); }
            }
            RateLoader::new(false, Box::new(InMemoryRatesCache { rates_by_year: RcRefCellT::new(cached) }), Box::new(MockRemoteRateLoader { remote_year_rates: RcRefCellT::new(remote) }), WriteHandle::empty_write_handle())
        }
        (Some((a, b)), None) => synthetic_loader(a..=b),
        (None, _) => empty_loader(),
    }
}
fn parse_opts(o: &RunOpts) -> Result<TxCsvParseOptions, String> {
    Ok(TxCsvParseOptions { date_format: match &o.date_fmt { Some(f) => Some(acb::util::date::parse_dyn_date_format(f)?), None => None } })
}
pub fn init_status(o: &RunOpts) -> Result<HashMap<String, PortfolioSecurityStatus>, String> { acb::app::input_parse::parse_initial_status(&o.symbol_base) }

/// files -> per-security deltas (the figures `--print-full-values` prints).
pub fn run_deltas(files: &[(String, String)], o: &RunOpts) -> Result<BTreeMap<String, SecResult>, RunErr> {
    reset_globals(far_today());
    let r = guard(|| -> Result<_, RunErr> {
        let init = init_status(o).map_err(RunErr::BadInit)?;
        let po = parse_opts(o).map_err(RunErr::BadInit)?;
        async_std::task::block_on(run_acb_app_to_delta_models(readers(files), init, &po, loader_for(o), WriteHandle::empty_write_handle())).map_err(RunErr::Run)
    });
    match r {
        Err(p) => Err(RunErr::Panic(p)),
        Ok(Err(e)) => Err(e),
        Ok(Ok(m)) => Ok(m.into_iter().map(|(k, v)| match v.0 { Ok(d) => (k, SecResult { deltas: d, err: None }), Err(e) => (k, SecResult { deltas: e.partial_deltas, err: Some(e.err_msg) }) }).collect()),
    }
}

pub struct RenderOut { pub res: AppRenderResult, pub err_text: String }

pub fn run_render(files: &[(String, String)], o: &RunOpts, full: bool, costs: bool) -> Result<RenderOut, RunErr> {
    reset_globals(far_today());
    let (eh, ebuf) = WriteHandle::string_buff_write_handle();
    let r = guard(|| -> Result<_, RunErr> {
        let init = init_status(o).map_err(RunErr::BadInit)?;
        let po = parse_opts(o).map_err(RunErr::BadInit)?;
        async_std::task::block_on(run_acb_app_to_render_model(readers(files), init, &po, full, costs, loader_for(o), eh)).map_err(RunErr::Run)
    });
    let err_text = ebuf.borrow().as_str().to_string();
    match r { Err(p) => Err(RunErr::Panic(p)), Ok(Err(e)) => Err(e), Ok(Ok(res)) => Ok(RenderOut { res, err_text }) }
}

pub struct TextOut { pub out: String, pub err: String, pub ok: bool, pub res: Option<AppRenderResult> }

/// The text front end (what `acb file...` prints), into buffers.
pub fn run_text(files: &[(String, String)], o: &RunOpts, full: bool, costs: bool) -> Result<TextOut, RunErr> {
    reset_globals(far_today());
    let (oh, obuf) = WriteHandle::string_buff_write_handle();
    let (eh, ebuf) = WriteHandle::string_buff_write_handle();
    let r = guard(|| -> Result<_, RunErr> {
        let init = init_status(o).map_err(RunErr::BadInit)?;
        let po = parse_opts(o).map_err(RunErr::BadInit)?;
        let mut w = acb::app::outfmt::text::TextWriter::new(oh);
        let wr: &mut dyn AcbWriter = &mut w;
        Ok(async_std::task::block_on(run_acb_app_to_writer(wr, readers(files), init, &po, full, costs, loader_for(o), eh)))
    });
    let out = obuf.borrow().as_str().to_string();
    let err = ebuf.borrow().as_str().to_string();
    match r { Err(p) => Err(RunErr::Panic(p)), Ok(Err(e)) => Err(e), Ok(Ok(res)) => Ok(TextOut { out, err, ok: res.is_ok(), res: res.ok() }) }
}

/// CSV writer front end into one buffer (what each file of --csv-output-dir contains, concatenated).
pub fn run_csv_writer(files: &[(String, String)], o: &RunOpts, full: bool, costs: bool) -> Result<TextOut, RunErr> {
    reset_globals(far_today());
    let (oh, obuf) = WriteHandle::string_buff_write_handle();
    let (eh, ebuf) = WriteHandle::string_buff_write_handle();
    let r = guard(|| -> Result<_, RunErr> {
        let init = init_status(o).map_err(RunErr::BadInit)?;
        let po = parse_opts(o).map_err(RunErr::BadInit)?;
        let mut w = acb::app::outfmt::csv::CsvWriter::new_to_writer(oh);
        let wr: &mut dyn AcbWriter = &mut w;
        Ok(async_std::task::block_on(run_acb_app_to_writer(wr, readers(files), init, &po, full, costs, loader_for(o), eh)))
    });
    let out = obuf.borrow().as_str().to_string();
    let err = ebuf.borrow().as_str().to_string();
    match r { Err(p) => Err(RunErr::Panic(p)), Ok(Err(e)) => Err(e), Ok(Ok(res)) => Ok(TextOut { out, err, ok: res.is_ok(), res: res.ok() }) }
}

/// `--csv-output-dir` as the binary does it: CsvWriter over a scratch directory; returns (file name, content) pairs and the error stream.
pub fn run_csv_dir(files: &[(String, String)], o: &RunOpts) -> Result<(Vec<(String, String)>, String), RunErr> {
    run_csv_dir_runs(&[(files, false, false)], o)
}

/// The real `--csv-output-dir` front end, run once per entry of `runs` (files, --print-full-values, --total-costs) into ONE directory,
/// as a user re-running the tool does; returns the directory's files after the last run and the last run's error stream.
pub fn run_csv_dir_runs(runs: &[(&[(String, String)], bool, bool)], o: &RunOpts) -> Result<(Vec<(String, String)>, String), RunErr> {
    static N: std::sync::atomic::AtomicU64 = std::sync::atomic::AtomicU64::new(0);
    let base = if std::path::Path::new("/dev/shm").is_dir() { std::path::PathBuf::from("/dev/shm") } else { std::env::temp_dir() };
    let dir = base.join(format!("acbverif-csvdir-{}-{}", std::process::id(), N.fetch_add(1, std::sync::atomic::Ordering::Relaxed)));
    let _ = std::fs::remove_dir_all(&dir);
    let mut err = String::new();
    for (files, full, costs) in runs {
        reset_globals(far_today());
        let (eh, ebuf) = WriteHandle::string_buff_write_handle();
        let r = guard(|| -> Result<_, RunErr> {
            let init = init_status(o).map_err(RunErr::BadInit)?;
            let po = parse_opts(o).map_err(RunErr::BadInit)?;
            let mut w = acb::app::outfmt::csv::CsvWriter::new_to_output_dir(&dir.display().to_string()).map_err(|e| RunErr::BadInit(format!("scratch directory: {e}")))?;
            let wr: &mut dyn AcbWriter = &mut w;
            Ok(async_std::task::block_on(run_acb_app_to_writer(wr, readers(files), init, &po, *full, *costs, loader_for(o), eh)))
        });
        err = ebuf.borrow().as_str().to_string();
        match r { Err(p) => { let _ = std::fs::remove_dir_all(&dir); return Err(RunErr::Panic(p)); } Ok(Err(e)) => { let _ = std::fs::remove_dir_all(&dir); return Err(e); } Ok(Ok(_)) => {} }
    }
    let mut out = vec![];
    if let Ok(rd) = std::fs::read_dir(&dir) { for e in rd.flatten() { if let Ok(t) = std::fs::read_to_string(e.path()) { out.push((e.file_name().to_string_lossy().to_string(), t)); } } }
    out.sort();
    let _ = std::fs::remove_dir_all(&dir);
    Ok((out, err))
}

pub struct SummaryOut { pub csv: String, pub n_rows: usize, pub warnings: Vec<String> }
pub enum SummaryErr { Panic(PanicInfo), General(String), Sec(BTreeMap<String, String>), BadInit(String) }

pub fn run_summary(files: &[(String, String)], o: &RunOpts, cut: Date, annual: bool, today: Date) -> Result<SummaryOut, SummaryErr> {
    reset_globals(today);
    let r = guard(|| -> Result<_, SummaryErr> {
        let init = init_status(o).map_err(SummaryErr::BadInit)?;
        let mut opts = acb::app::Options::default();
        opts.split_annual_summary_gains = annual;
        opts.csv_parse_options = parse_opts(o).map_err(SummaryErr::BadInit)?;
        let data = async_std::task::block_on(run_acb_app_summary_to_model(cut, readers(files), init, opts, loader_for(o), WriteHandle::empty_write_handle()))
            .map_err(|e| match e.general_error { Some(g) => SummaryErr::General(g), None => SummaryErr::Sec(e.sec_errors.into_iter().collect()) })?;
        let mut warnings: Vec<String> = data.warnings.iter().map(|(w, secs)| format!("{w} [{}]", secs.join(","))).collect();
        warnings.sort(); // the console front end prints them sorted; its real order is checked at binary level (C09)
        let csvtxs: Vec<acb::portfolio::CsvTx> = data.txs.into_iter().map(|t| t.into()).collect();
        let n = csvtxs.len();
        let mut buf = acb::util::rw::StringBuffer::new();
        if n > 0 { acb::portfolio::io::tx_csv::write_txs_to_csv(&csvtxs, &mut buf).map_err(|e| SummaryErr::General(format!("write: {e}")))?; }
        Ok(SummaryOut { csv: buf.export_string(), n_rows: n, warnings })
    });
    match r { Err(p) => Err(SummaryErr::Panic(p)), Ok(x) => x }
}

/// Error stream of the console front end of summary mode (what `acb --summarize-before` prints). Only meant for inputs whose
/// summary fails: on success that front end writes the CSV to the process's real stdout.
pub fn run_summary_console_errors(files: &[(String, String)], o: &RunOpts, cut: Date, annual: bool, today: Date) -> Result<String, String> {
    reset_globals(today);
    let (eh, ebuf) = WriteHandle::string_buff_write_handle();
    let r = guard(|| -> Result<(), String> {
        let init = init_status(o)?;
        let mut opts = acb::app::Options::default();
        opts.split_annual_summary_gains = annual;
        opts.csv_parse_options = parse_opts(o)?;
        let _ = async_std::task::block_on(acb::app::run_acb_app_summary_to_console(cut, readers(files), init, opts, loader_for(o), eh));
        Ok(())
    });
    match r { Err(p) => Err(format!("panic {}", p.sig())), Ok(Err(e)) => Err(e), Ok(Ok(())) => Ok(ebuf.borrow().as_str().to_string()) }
}

pub fn dec_of(d: &Decimal) -> crate::bigrat::Rat { crate::bigrat::Rat::from_decimal(d) }
