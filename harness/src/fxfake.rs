//! Fake Bank of Canada: publication calendars, a fake HTTP endpoint speaking the valet JSON schema,
//! a counting RemoteRateLoader, and the 15-line reference function for C12/C13/C14.
use acb::fx::io::{RateLoadResult, RemoteRateLoader};
use acb::fx::DailyRate;
use acb::util::http::HttpRequester;
use json::JsonValue;
use rust_decimal::Decimal;
use std::cell::RefCell;
use std::collections::BTreeMap;
use std::rc::Rc;
use std::str::FromStr;
use time::{Date, Duration, Month};

/// One calendar day of the fake bank.
#[derive(Clone, Debug, PartialEq)]
pub enum Obs {
    /// valid observation; the string is the published value (noon: CAD per USD; daily: USD per CAD)
    Published(String),
    /// an observation the tool must skip with a warning (bad value, zero, negative, wrong type)
    Malformed(&'static str),
}

#[derive(Clone, Debug, Default)]
pub struct Calendar { pub days: BTreeMap<Date, Obs>, pub junk_entries: bool }

pub fn series_for_year(y: i32) -> &'static str { if y >= 2017 { "FXCADUSD" } else { "IEXE0101" } }

impl Calendar {
    /// The rate (CAD per USD) the bank published for `d`, as the tool must compute it.
    pub fn published(&self, d: Date) -> Option<Decimal> {
        match self.days.get(&d) {
            Some(Obs::Published(v)) => { let x = Decimal::from_str(v).ok()?; Some(if d.year() >= 2017 { Decimal::ONE / x } else { x }) }
            _ => None,
        }
    }
    pub fn to_json(&self) -> JsonValue {
        JsonValue::Array(self.days.iter().map(|(d, o)| match o { Obs::Published(v) => json::object! { d: d.to_string(), v: v.as_str() }, Obs::Malformed(k) => json::object! { d: d.to_string(), bad: *k } }).collect())
    }
    pub fn from_json(v: &JsonValue) -> Option<Calendar> {
        let mut c = Calendar::default();
        for e in v.members() {
            let d = crate::gen::parse_date(e["d"].as_str()?)?;
            if let Some(x) = e["v"].as_str() { c.days.insert(d, Obs::Published(x.to_string())); }
            else { let k = e["bad"].as_str()?; c.days.insert(d, Obs::Malformed(MALFORMED.iter().find(|m| **m == k).copied()?)); }
        }
        Some(c)
    }
    /// Observations of year `y` dated before `cutoff` (exclusive), as the valet JSON body.
    pub fn body(&self, y: i32, cutoff: Date) -> String {
        let key = series_for_year(y);
        let mut obs: Vec<String> = vec![];
        if self.junk_entries { obs.push("17".into()); obs.push("{\"x\": 1}".into()); obs.push("{\"d\": 5}".into()); obs.push("{\"d\": \"2016-13-45\", \"IEXE0101\": {\"v\": \"1.1\"}}".into()); }
        for (d, o) in self.days.range(ymd(y, 1, 1)..=ymd(y, 12, 31)) {
            if *d >= cutoff { continue; }
            let val = match o {
                Obs::Published(v) => format!("{{\"v\": \"{v}\"}}"),
                Obs::Malformed("zero") => "{\"v\": \"0\"}".into(),
                Obs::Malformed("negative") => "{\"v\": \"-1.25\"}".into(),
                Obs::Malformed("text") => "{\"v\": \"Bank holiday\"}".into(),
                Obs::Malformed("no-v") => "{\"w\": \"1.25\"}".into(),
                Obs::Malformed("not-object") => "\"1.25\"".into(),
                Obs::Malformed("null") => "{\"v\": null}".into(),
                Obs::Malformed(_) => "{\"v\": \"\"}".into(),
            };
            obs.push(format!("{{\"d\": \"{d}\", \"{key}\": {val}}}"));
        }
        format!("{{\"terms\": {{}}, \"seriesDetail\": {{}}, \"observations\": [{}]}}", obs.join(",\n"))
    }
    /// Valid observations of year `y` before `cutoff`, as the library's own type.
    pub fn daily_rates(&self, y: i32, cutoff: Date) -> Vec<DailyRate> {
        self.days.range(ymd(y, 1, 1)..=ymd(y, 12, 31)).filter(|(d, _)| **d < cutoff).filter_map(|(d, _)| self.published(*d).map(|r| DailyRate::new(*d, r))).collect()
    }
}
pub const MALFORMED: [&str; 7] = ["zero", "negative", "text", "no-v", "not-object", "null", "empty"];

pub fn ymd(y: i32, m: u8, d: u8) -> Date { Date::from_calendar_date(y, Month::try_from(m).unwrap(), d).unwrap() }

/// The documented behaviour: the day's rate, else (only for days before `today`) the most recent
/// rate published within the preceding seven days, else an error.
pub fn reference(cal: &Calendar, cutoff: Date, today: Date, date: Date) -> Result<(Date, Decimal), ()> {
    let visible = |d: Date| if d < cutoff { cal.published(d) } else { None };
    if let Some(r) = visible(date) { return Ok((date, r)); }
    if date >= today { return Err(()); }
    for k in 1..=7 { let d = date - Duration::days(k); if let Some(r) = visible(d) { return Ok((d, r)); } }
    Err(())
}

// ---------- fake HTTP endpoint ----------
pub struct FakeBank { pub cal: Calendar, pub cutoff: Date, pub requests: Rc<RefCell<Vec<String>>> }

#[async_trait::async_trait(?Send)]
impl HttpRequester for FakeBank {
    async fn get(&self, url: &str) -> Result<String, String> {
        self.requests.borrow_mut().push(url.to_string());
        // https://www.bankofcanada.ca/valet/observations/{SERIES}/json?start_date=Y-01-01&end_date=Y-12-31
        let series = url.split("/observations/").nth(1).and_then(|s| s.split('/').next()).ok_or("bad url")?;
        let y: i32 = url.split("start_date=").nth(1).and_then(|s| s.get(..4)).and_then(|s| s.parse().ok()).ok_or("bad url")?;
        if !url.contains(&format!("end_date={y}-12-31")) { return Err(format!("unexpected url {url}")); }
        // the real endpoint only knows each series for its own period
        if series != series_for_year(y) { return Ok("{\"observations\": []}".into()); }
        Ok(self.cal.body(y, self.cutoff))
    }
}

// ---------- counting remote loader (for the cache checks) ----------
pub struct CountingRemote { pub cal: Rc<Calendar>, pub cutoff: Date, pub calls: Rc<RefCell<BTreeMap<u32, u32>>> }

#[async_trait::async_trait(?Send)]
impl RemoteRateLoader for CountingRemote {
    async fn get_remote_usd_cad_rates(&self, year: u32) -> Result<RateLoadResult, String> {
        *self.calls.borrow_mut().entry(year).or_insert(0) += 1;
        Ok(RateLoadResult { rates: self.cal.daily_rates(year as i32, self.cutoff), non_fatal_errors: vec![] })
    }
}
