#!/usr/bin/env bash
# usage: bin/check.sh <ID> <quick|thorough>
# Rebuilds the harness (and with it acb from /repo's current working tree), then runs the check.
# exit 0 = held, 1 = violation (VIOLATION line printed), 2 = inconclusive / infrastructure error.
set -u
ID="${1:?property id}"; TIER="${2:-${VERIF_TIER:-quick}}"
ROOT="$(cd "$(dirname "$0")/.." && pwd)"
export CARGO_NET_OFFLINE=true
export VERIF_ROOT="$ROOT"
cd "$ROOT/harness" || exit 2
mkdir -p target
[ -f Cargo.lock ] || cp /repo/Cargo.lock Cargo.lock
if ! cargo build --release --offline >"$ROOT/harness/target/build.log" 2>&1; then
  mkdir -p "$ROOT/harness/target"; cargo build --release --offline 2>&1 | grep -v '^warning: /root' | tail -40
  echo "INCONCLUSIVE: harness or /repo does not build" >&2
  exit 2
fi
case "$TIER:$ID" in
  thorough:C01|thorough:C02|thorough:C03|thorough:C04|thorough:C05|thorough:C06|thorough:C07|thorough:C08|thorough:C10|thorough:C11|thorough:C12|thorough:C13|thorough:C15|thorough:C16|thorough:C17|thorough:C20) ;;
  *) exec "$ROOT/harness/target/release/check" "$ID" --tier "$TIER" ;;
esac
# thorough tier of these properties: proptest stage, then fixed-work libFuzzer campaigns (bin/fuzz_campaign.py)
"$ROOT/harness/target/release/check" "$ID" --tier "$TIER"; rc1=$?
if ! (cd "$ROOT" && cargo fuzz build -s none --fuzz-dir "$ROOT/fuzz" >"$ROOT/harness/target/fuzz-build.log" 2>&1); then
  tail -20 "$ROOT/harness/target/fuzz-build.log"; echo "INCONCLUSIVE: fuzz targets do not build" >&2
  [ "$rc1" = 1 ] && exit 1; exit 2
fi
python3 "$ROOT/bin/fuzz_campaign.py" "$ID"; rc2=$?
if [ "$rc1" = 1 ] || [ "$rc2" = 1 ]; then exit 1; fi
if [ "$rc1" != 0 ] || [ "$rc2" != 0 ]; then exit 2; fi
exit 0
