#!/usr/bin/env bash
# usage: bin/mutant_matrix.sh  — every hand-written mutant against the quick check of its own property -> mutants/RESULTS.md
# Mutates /repo while it runs; run nothing else against /repo meanwhile.
set -u
ROOT="$(cd "$(dirname "$0")/.." && pwd)"
OUT="$ROOT/mutants/RESULTS.md"
{
  echo "# Hand-written mutants against the quick checks"
  echo
  echo "Each patch compiles and passes the repository's own tests (checked when it was written); \`bin/mutant.sh <patch> <ID>\`"
  echo "applies it to /repo, runs \`bin/check.sh <ID> quick\` (VERIF_SEED unset = 1), reverts.  Regenerate with \`bin/mutant_matrix.sh\`."
  echo
  echo "| mutant | check | result | first failure line |"
  echo "|---|---|---|---|"
  for p in "$ROOT"/mutants/*.patch; do
    n=$(basename "$p" .patch); id=${n%%-*}
    line=$(bash "$ROOT/bin/mutant.sh" "$p" "$id" 2>&1 | grep -E " (caught|MISSED|inconclusive|does-not-apply)" | head -1)
    verdict=$(echo "$line" | awk '{print $3}'); why=$(echo "$line" | sed 's/^.*:: //' | cut -c1-160 | tr '|' '/')
    [ -z "$verdict" ] && verdict="does-not-apply"
    echo "| $n | $id | $verdict | $why |"
  done
} > "$OUT.tmp"
mv "$OUT.tmp" "$OUT"
