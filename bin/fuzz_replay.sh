#!/usr/bin/env bash
# usage: bin/fuzz_replay.sh <artifact>   (artifact name: <ID>-fuzz-<target>-crash-<sha1>)
# Rebuilds the fuzz targets from /repo's working tree and runs the one named in the artifact on that input.
set -u
ROOT="$(cd "$(dirname "$0")/.." && pwd)"; A="$(realpath "$1")"
n="$(basename "$A")"; ID="${n%%-*}"; t="${n#*-fuzz-}"; TARGET="${t%%-crash-*}"; TARGET="${TARGET%%-timeout-*}"; TARGET="${TARGET%%-oom-*}"
export CARGO_NET_OFFLINE=true
case "$TARGET" in
  strategy_bytes.*)
    # the bytes are the entropy of the property's own strategy: replay through the harness itself (rebuilt from /repo's working tree)
    SUB="${TARGET#strategy_bytes.}"
    (cd "$ROOT/harness" && cargo build --release --offline >/dev/null 2>&1) || { echo "INCONCLUSIVE: harness does not build" >&2; exit 2; }
    exec "$ROOT/harness/target/release/check" "$ID" --entropy "$A" --sub "$SUB" ;;
esac
(cd "$ROOT" && cargo fuzz build -s none --fuzz-dir "$ROOT/fuzz" "$TARGET" >/dev/null 2>&1) || { echo "INCONCLUSIVE: fuzz target $TARGET does not build" >&2; exit 2; }
out=$(cd "$(mktemp -d)" && ACBVERIF_FUZZ_PROP="$ID" "$ROOT/fuzz/target/x86_64-unknown-linux-gnu/release/$TARGET" "$A" 2>&1); rc=$?
echo "$out" | grep -E "^VIOLATION-|^PANIC" | head -20
if [ $rc -ne 0 ]; then echo "VIOLATION property=$ID replay=$A"; exit 1; fi
echo PASS
