#!/usr/bin/env bash
# usage: bin/seed_matrix.sh [out.tsv]  — every seeded change x every quick check; one line "seed check caught|MISSED|inconclusive".
# Mutates /repo while it runs (apply / checkout per seed); run nothing else against /repo meanwhile.
set -u
ROOT="$(cd "$(dirname "$0")/.." && pwd)"
OUT="${1:-$ROOT/seeded/MATRIX.tsv}"
IDS="C01 C02 C03 C04 C05 C06 C07 C08 C09 C10 C11 C12 C13 C14 C15 C16 C17 C18 C19 C20"
: > "$OUT.tmp"
for d in "$ROOT"/seeded/C*/; do
  s=$(basename "$d")
  bash "$ROOT/bin/mutant.sh" "$d/patch.diff" $IDS 2>&1 | grep -E " (caught|MISSED|inconclusive)" | while read -r _p id verdict rest; do printf "%s\t%s\t%s\n" "$s" "$id" "$verdict" >> "$OUT.tmp"; done
done
mv "$OUT.tmp" "$OUT"
