#!/usr/bin/env python3
"""Turn a transaction CSV (canonical column names) into the LedgerCase JSON used by replay files
and known_findings.json.  usage: csv2case.py file.csv [SYM:n:acb ...]"""
import csv, json, sys
cols = {"security":"sec","trade date":"td","settlement date":"sd","action":"act","shares":"shares","amount/share":"price","commission":"comm","currency":"cur","exchange rate":"rate","commission currency":"ccur","commission exchange rate":"crate","affiliate":"af","split ratio":"split","superficial loss":"sfl","memo":"memo"}
rows=[]
text=open(sys.argv[1]).read() if sys.argv[1]!='-' else sys.stdin.read()
for r in csv.DictReader(text.splitlines()):
    o={v:"" for v in cols.values()}
    for k,v in r.items():
        if k and k.strip().lower() in cols: o[cols[k.strip().lower()]]=v or ""
    rows.append(o)
print(json.dumps({"csv":text,"rows":rows,"opening":sys.argv[2:]}))
