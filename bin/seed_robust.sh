#!/usr/bin/env bash
# usage: bin/seed_robust.sh <out.tsv> <seed>...   — every seeded change against the quick check of its own property under each VERIF_SEED,
# in a private copy of /verif (HEAD) and /repo (HEAD) under $SCRATCH (default /tmp/robust), so /repo stays free.  With SAVE=1 the first
# failing case found under the first seed is copied to /verif/replays/regress/<ID>-seeded-<dir>.json (a case that passes on the real tree).
set -u
OUT="$(realpath -m "$1")"; shift
SC="${SCRATCH:-/tmp/robust}"
rm -rf "$SC"; mkdir -p "$SC"
git -C /repo worktree add --detach "$SC/repo" HEAD >/dev/null 2>&1 || exit 2
git -C /verif worktree add --detach "$SC/verif" HEAD >/dev/null 2>&1 || exit 2
sed -i "s#\"/repo#\"$SC/repo#g" "$SC/verif/harness/Cargo.toml" "$SC/verif/fuzz/Cargo.toml"; cp "$SC/repo/Cargo.lock" "$SC/verif/harness/Cargo.lock"
: > "$OUT"
for d in /verif/seeded/C*/; do
  s=$(basename "$d"); id=${s%%-*}
  first=1
  for seed in "$@"; do
    save=""; if [ "${SAVE:-0}" = 1 ] && [ $first = 1 ]; then save="/verif/replays/regress/$id-seeded-$s.json"; fi
    r=$(cd "$SC/verif" && REPO_DIR="$SC/repo" SAVE_REGRESS_AS="$save" VERIF_SEED=$seed bash bin/mutant.sh "$d/patch.diff" "$id" 2>&1 | grep -E " (caught|MISSED|inconclusive|does-not-apply)" | head -1 | awk '{print $3}')
    printf "%s\t%s\t%s\t%s\n" "$s" "$id" "$seed" "${r:-error}" >> "$OUT"
    first=0
  done
done
git -C /repo worktree remove --force "$SC/repo"; git -C /verif worktree remove --force "$SC/verif"; rm -rf "$SC"
echo done >> "$OUT"
