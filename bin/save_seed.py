#!/usr/bin/env python3
"""usage: save_seed.py <round> <src root (/tmp/seedN)> <<'JSON'  {"C01": ["breaks", "needs", "how it shows"], ...}  JSON
Copies <src>/<ID>/out/* to seeded/<ID>[-round]/ and writes meta.json."""
import json, os, shutil, sys
rnd, src = int(sys.argv[1]), sys.argv[2]
meta = json.load(sys.stdin)
root = os.path.dirname(os.path.dirname(os.path.abspath(__file__)))
for id, (what, needs, caught) in meta.items():
    d = os.path.join(root, "seeded", id if rnd == 1 else f"{id}-{rnd}"); os.makedirs(d, exist_ok=True)
    for f in os.listdir(f"{src}/{id}/out"):
        if not f.endswith(".log"): shutil.copy(f"{src}/{id}/out/{f}", d)
    json.dump({"property": id, "round": rnd, "breaks": what, "needs_to_manifest": needs,
      "origin": "fresh sub-agent given only the property text, one-line descriptions of the earlier rounds' changes to avoid, and a scratch worktree of /repo",
      "confirmed": {"how": "bin/verify_seed.sh in the scratch worktree: git apply patch.diff; cargo test --workspace --no-fail-fast --offline (only the pre-existing network failure test_sample_csv_file_validity); cp demo_test.rs tests/ && cargo test --offline --features testlib,verif_hooks --test demo_test fails with the patch (rc 101) and passes after git apply -R (rc 0)",
                    "suite_with_patch": "pass (122 + known network failure)", "demo_with_patch": "fail", "demo_without_patch": "pass"},
      "checks_run": f"bin/mutant.sh seeded/{os.path.basename(d)}/patch.diff {id}",
      "caught_by": {id: caught}}, open(os.path.join(d, "meta.json"), "w"), indent=1)
print("saved", len(meta))
