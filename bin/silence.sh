#!/usr/bin/env bash
# usage: bin/silence.sh <seed>...   — every quick check under each VERIF_SEED on the unchanged tree; prints anything that is not silent.
# Evidence goes to a scratch directory, so evidence/ keeps the VERIF_SEED=1 record.
set -u
ROOT="$(cd "$(dirname "$0")/.." && pwd)"
EV=$(mktemp -d); export ACBVERIF_EVIDENCE_DIR="$EV"
bad=0
for s in "$@"; do
  for i in 01 02 03 04 05 06 07 08 09 10 11 12 13 14 15 16 17 18 19 20; do
    out=$(VERIF_SEED=$s bash "$ROOT/bin/check.sh" C$i quick 2>&1); rc=$?
    if [ $rc -ne 0 ] || echo "$out" | grep -q "^VIOLATION"; then bad=$((bad+1)); echo "seed=$s C$i rc=$rc"; echo "$out" | grep -E "^FAIL|^VIOLATION|inconclusive" | cut -c1-400 | head -5; fi
  done
  echo "seed $s done"
done
rm -rf "$EV"
echo "not-silent=$bad"
