#!/usr/bin/env bash
# usage: bin/mutant.sh <patch.diff> <ID> [<ID>...]   — apply a property-breaking patch to /repo, run quick checks, revert.
# Prints one line per check: "<patch> <ID> caught|MISSED|inconclusive".
set -u
P="$(realpath "$1")"; shift
ROOT="$(cd "$(dirname "$0")/.." && pwd)"
if ! git -C /repo diff --quiet; then echo "refusing: /repo has uncommitted changes" >&2; exit 2; fi
if ! git -C /repo apply --check "$P" 2>/dev/null; then echo "$(basename $P) does-not-apply"; exit 2; fi
git -C /repo apply "$P"
EV=$(mktemp -d); export ACBVERIF_EVIDENCE_DIR="$EV"
trap 'git -C /repo checkout -- . ; git -C /repo clean -fdq src tests; rm -rf "$EV"' EXIT
for ID in "$@"; do
  out=$(VERIF_MUTANT=1 bash "$ROOT/bin/check.sh" "$ID" quick 2>&1); rc=$?
  first=$(echo "$out" | grep -m1 '^FAIL' | cut -c1-220)
  case $rc in 1) echo "$(basename $P) $ID caught :: $first";; 0) echo "$(basename $P) $ID MISSED";; *) echo "$(basename $P) $ID inconclusive(rc=$rc) :: $(echo "$out" | tail -2 | tr '\n' ' ' | cut -c1-200)";; esac
done
