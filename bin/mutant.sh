#!/usr/bin/env bash
# usage: bin/mutant.sh <patch.diff> <ID> [<ID>...]   — apply a property-breaking patch to /repo, run quick checks, revert.
# Prints one line per check: "<patch> <ID> caught|MISSED|inconclusive".
set -u
P="$(realpath "$1")"; shift
ROOT="$(cd "$(dirname "$0")/.." && pwd)"
REPO="${REPO_DIR:-/repo}"   # a scratch copy of the repository when the harness in $ROOT was pointed at one (bin/seed_robust.sh)
if ! git -C "$REPO" diff --quiet; then echo "refusing: $REPO has uncommitted changes" >&2; exit 2; fi
if ! git -C "$REPO" apply --check "$P" 2>/dev/null; then echo "$(basename $P) does-not-apply"; exit 2; fi
git -C "$REPO" apply "$P"
EV=$(mktemp -d); export ACBVERIF_EVIDENCE_DIR="$EV"
trap 'git -C "$REPO" checkout -- . ; git -C "$REPO" clean -fdq src tests; rm -rf "$EV"' EXIT
for ID in "$@"; do
  out=$(VERIF_MUTANT=1 bash "$ROOT/bin/check.sh" "$ID" quick 2>&1); rc=$?
  first=$(echo "$out" | grep -m1 '^FAIL' | cut -c1-220)
  # keep the first failing case as a regression replay when asked to
  if [ -n "${SAVE_REGRESS_AS:-}" ] && [ $rc -eq 1 ]; then rp=$(echo "$out" | grep -m1 '^VIOLATION' | sed 's/.*replay=//'); case "$rp" in *.json) [ -f "$rp" ] && cp "$rp" "${SAVE_REGRESS_AS}";; esac; fi
  case $rc in 1) echo "$(basename $P) $ID caught :: $first";; 0) echo "$(basename $P) $ID MISSED";; *) echo "$(basename $P) $ID inconclusive(rc=$rc) :: $(echo "$out" | tail -2 | tr '\n' ' ' | cut -c1-200)";; esac
done
