#!/usr/bin/env python3
"""Fixed-work libFuzzer campaigns for one property (thorough tier).

usage: fuzz_campaign.py <ID> [--scale x]
Runs every target registered for <ID>: 16 independent jobs per target, each `-runs=N` with a seed derived from
VERIF_SEED, each on a fresh copy of fuzz/seeds/<target>.  A crash artifact is a violation (exit 1, VIOLATION line,
artifact kept under replays/found); a libFuzzer timeout / OOM / job overrun is inconclusive (exit 2).  Merges what was
covered into evidence/<ID>.json under coverage.fuzz (the file the proptest stage of the same command just wrote).
"""
import hashlib, json, os, re, shutil, subprocess, sys, tempfile, time

ROOT = os.path.dirname(os.path.dirname(os.path.abspath(__file__)))
BIN = os.path.join(ROOT, "fuzz/target/x86_64-unknown-linux-gnu/release")
# target -> (runs per job, max_len, dict, env)
TARGETS = {
    "csv_app":        dict(runs=250_000, max_len=4096, dict="csv.dict"),
    "csv_roundtrip":  dict(runs=400_000, max_len=4096, dict="csv.dict"),
    "etrade_text":    dict(runs=30_000,  max_len=8192, dict=None),
    "fmv_text":       dict(runs=80_000,  max_len=4096, dict=None),
    "ledger_intents": dict(runs=20_000,  max_len=1395, dict=None),
    "csv_cells":      dict(runs=30_000, max_len=2 + 16 * 40, dict=None),
}
PLAN = {
    "C01": ["ledger_intents"], "C02": ["ledger_intents"], "C03": ["ledger_intents"], "C04": ["ledger_intents"],
    "C05": ["csv_cells", "csv_app", "etrade_text", "fmv_text"], "C11": ["csv_cells", "csv_roundtrip"],
}
JOBS = min(16, os.cpu_count() or 4)

def main():
    pid = sys.argv[1]
    scale = 1.0
    if "--scale" in sys.argv: scale = float(sys.argv[sys.argv.index("--scale") + 1])
    targets = PLAN.get(pid, [])
    if not targets: return 0
    seed = int(os.environ.get("VERIF_SEED", "1") or "1")
    found = os.path.join(ROOT, "replays/found"); os.makedirs(found, exist_ok=True)
    base = "/dev/shm" if os.path.isdir("/dev/shm") and os.access("/dev/shm", os.W_OK) else None
    tmp = tempfile.mkdtemp(prefix=f"acbverif-fuzz-{pid}-", dir=base)
    t0 = time.time()
    report, violations, inconclusive = {}, [], []
    try:
        for tg in targets:
            cfg = TARGETS[tg]; exe = os.path.join(BIN, tg)
            if not os.path.exists(exe): inconclusive.append(f"{tg}: fuzz binary missing"); continue
            runs = max(1000, int(cfg["runs"] * scale))
            procs = []
            for j in range(JOBS):
                d = os.path.join(tmp, tg, f"j{j}"); corpus = os.path.join(d, "corpus"); os.makedirs(corpus)
                sd = os.path.join(ROOT, "fuzz/seeds", tg)
                if os.path.isdir(sd):
                    for f in sorted(os.listdir(sd)): shutil.copy(os.path.join(sd, f), corpus)
                jseed = int(hashlib.sha256(f"{seed}/{pid}/{tg}/{j}".encode()).hexdigest()[:8], 16) % 0x7fffffff or 1
                args = [exe, corpus, f"-runs={runs}", f"-seed={jseed}", f"-max_len={cfg['max_len']}", "-len_control=0", "-timeout=120",
                        "-rss_limit_mb=4096", "-print_final_stats=1", f"-artifact_prefix={found}/{pid}-fuzz-{tg}-"]
                if cfg["dict"]: args.append(f"-dict={os.path.join(ROOT, 'fuzz/dicts', cfg['dict'])}")
                env = dict(os.environ, ACBVERIF_FUZZ_STATS=os.path.join(d, "stats.json"), ACBVERIF_FUZZ_CASES=found, ACBVERIF_FUZZ_PROP=pid, HOME=d, TMPDIR=d)
                env.pop("ACBVERIF_STRICT", None)
                log = open(os.path.join(d, "log.txt"), "wb")
                procs.append((j, jseed, d, subprocess.Popen(args, cwd=d, env=env, stdin=subprocess.DEVNULL, stdout=log, stderr=log)))
            execs = nontriv = corp = cov = 0; seeds = []
            for j, jseed, d, p in procs:
                try: rc = p.wait(timeout=7200)
                except subprocess.TimeoutExpired: p.kill(); p.wait(); inconclusive.append(f"{tg} job {j}: still running after 7200 s; killed"); rc = None
                text = open(os.path.join(d, "log.txt"), "rb").read().decode("utf-8", "replace")
                m = re.search(r"stat::number_of_executed_units:\s*(\d+)", text); e = int(m.group(1)) if m else 0
                execs += e; seeds.append(jseed)
                ms = re.findall(r"cov: (\d+) ft: \d+ corp: (\d+)", text)
                if ms: cov = max(cov, int(ms[-1][0])); corp += int(ms[-1][1])
                try: st = json.load(open(os.path.join(d, "stats.json"))); nontriv += st["nontrivial"]
                except Exception: pass
                if rc not in (0, None):
                    art = re.search(r"Test unit written to (\S+)", text)
                    why = next((l for l in text.splitlines() if l.startswith("VIOLATION-")), None)
                    if "ERROR: libFuzzer: timeout" in text or "out-of-memory" in text: inconclusive.append(f"{tg} job {j}: libFuzzer timeout/out-of-memory (artifact {art.group(1) if art else '-'})")
                    elif art: violations.append((tg, art.group(1), why or "process died without an oracle message"))
                    else: inconclusive.append(f"{tg} job {j}: exit {rc} without artifact")
            report[tg] = dict(jobs=JOBS, runs_per_job=runs, executions=execs, reached_oracle=nontriv, corpus_units=corp, edges_covered=cov, seeds=seeds[:4])
    finally:
        shutil.rmtree(tmp, ignore_errors=True)
    seen = set(); nviol = 0
    for tg, art, why in violations:
        key = (tg, why.split("\n")[0][:160])
        if key in seen: continue
        seen.add(key); nviol += 1
        print(f"FAIL [fuzz:{tg}] {why[:400]}")
        print(f"VIOLATION property={pid} replay={art}")
    wall = time.time() - t0
    evp = os.path.join(os.environ.get("ACBVERIF_EVIDENCE_DIR", os.path.join(ROOT, "evidence")), f"{pid}.json")
    try:
        ev = json.load(open(evp))
        ev["coverage"]["fuzz"] = dict(note="libFuzzer (-s none, stable toolchain) fixed-work campaigns run after the proptest stage; executions are NOT included in coverage.evaluations; reached_oracle = executions whose input got past parsing/decoding to the semantic check (counted in-target, flushed every 512)", targets=report)
        ev["wall_s"] = round(ev.get("wall_s", 0) + wall, 2)
        ev["violations"] = ev.get("violations", 0) + nviol
        ev["inconclusive"] = list(ev.get("inconclusive", [])) + inconclusive
        json.dump(ev, open(evp, "w"), indent=1)
    except Exception as e:
        inconclusive.append(f"could not merge fuzz coverage into {evp}: {e}")
    tot = sum(r["executions"] for r in report.values())
    print(f"{pid} fuzz: targets={','.join(report)} executions={tot} violations={nviol} inconclusive={len(inconclusive)} wall={wall:.1f}s")
    for m in inconclusive: print(f"inconclusive: {m}")
    return 1 if nviol else (2 if inconclusive else 0)

if __name__ == "__main__": sys.exit(main())
