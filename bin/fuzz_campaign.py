#!/usr/bin/env python3
"""Fixed-work libFuzzer campaigns for one property (thorough tier).

usage: fuzz_campaign.py <ID> [--scale x]
Runs every target registered for <ID>: 16 independent jobs per target, each `-runs=N` with a seed derived from
VERIF_SEED, each on a fresh copy of fuzz/seeds/<target>.  A crash artifact is a violation (exit 1, VIOLATION line,
artifact kept under replays/found); a libFuzzer timeout / OOM / job overrun is inconclusive (exit 2).  Merges what was
covered into evidence/<ID>.json under coverage.fuzz (the file the proptest stage of the same command just wrote).
"""
import hashlib, json, os, re, shutil, subprocess, sys, tempfile, time

ROOT = os.path.dirname(os.path.dirname(os.path.abspath(__file__)))
BIN = os.path.join(ROOT, "fuzz/target/x86_64-unknown-linux-gnu/release")
# target -> (runs per job, max_len, dict, env)
TARGETS = {
    "csv_app":        dict(runs=250_000, max_len=4096, dict="csv.dict"),
    "csv_roundtrip":  dict(runs=400_000, max_len=4096, dict="csv.dict"),
    "etrade_text":    dict(runs=30_000,  max_len=8192, dict=None),
    "fmv_text":       dict(runs=80_000,  max_len=4096, dict=None),
    "ledger_intents": dict(runs=20_000,  max_len=1395, dict=None),
    "csv_cells":      dict(runs=30_000, max_len=2 + 16 * 40, dict=None),
}
# strategy_bytes: the property's own proptest strategy fed with the fuzzer's bytes as entropy (pass-through RNG) and the same check
# function.  Only (property, sub) pairs whose strategies are light on prop_oneof are listed: proptest forks the pass-through stream
# once per earlier arm of every prop_oneof (halving what is left), so oneof-heavy strategies (C11, C18, C19, C20 table, C05 extreme /
# xlsx, C12 rows, C14) run out of entropy and then spin in rand's rejection sampling on zeros.  runs = per job.
STRATEGY_BYTES = {
    "C01": [("ledger", 20_000)], "C02": [("window", 20_000), ("declared", 10_000), ("cells", 10_000)], "C03": [("identity", 15_000), ("windows", 15_000)],
    "C04": [("accept", 12_000), ("reject", 8_000)], "C05": [("ledger", 10_000), ("damaged", 20_000)], "C06": [("totals", 8_000)], "C07": [("relayout", 5_000)],
    "C08": [("split", 8_000)], "C10": [("roundtrip", 15_000)], "C12": [("lookup", 20_000)], "C13": [("history", 6_000)], "C15": [("neutral", 20_000)],
    "C16": [("opening", 15_000)], "C17": [("costs", 20_000)], "C20": [("pages", 20_000)],
}
PLAN = {
    "C01": ["ledger_intents"], "C02": ["ledger_intents"], "C03": ["ledger_intents"], "C04": ["ledger_intents"],
    "C05": ["csv_cells", "csv_app", "etrade_text", "fmv_text"], "C11": ["csv_cells", "csv_roundtrip"],
}
JOBS = min(16, os.cpu_count() or 4)

def main():
    pid = sys.argv[1]
    scale = 1.0
    if "--scale" in sys.argv: scale = float(sys.argv[sys.argv.index("--scale") + 1])
    work = [(tg, tg, TARGETS[tg], {}) for tg in PLAN.get(pid, [])]
    for sub, runs in STRATEGY_BYTES.get(pid, []):
        work.append((f"strategy_bytes:{sub}", "strategy_bytes", dict(runs=runs, max_len=4096, dict=None), {"ACBVERIF_FUZZ_SUB": sub}))
    if not work: return 0
    seed = int(os.environ.get("VERIF_SEED", "1") or "1")
    found = os.path.join(ROOT, "replays/found"); os.makedirs(found, exist_ok=True)
    base = "/dev/shm" if os.path.isdir("/dev/shm") and os.access("/dev/shm", os.W_OK) else None
    tmp = tempfile.mkdtemp(prefix=f"acbverif-fuzz-{pid}-", dir=base)
    t0 = time.time()
    report, violations, inconclusive = {}, [], []
    try:
        for label, tg, cfg, extra_env in work:
            exe = os.path.join(BIN, tg)
            if not os.path.exists(exe): inconclusive.append(f"{tg}: fuzz binary missing"); continue
            runs = max(1000, int(cfg["runs"] * scale))
            procs = []
            for j in range(JOBS):
                d = os.path.join(tmp, label.replace(":", "_"), f"j{j}"); corpus = os.path.join(d, "corpus"); os.makedirs(corpus)
                sd = os.path.join(ROOT, "fuzz/seeds", tg)
                if os.path.isdir(sd):
                    for f in sorted(os.listdir(sd)): shutil.copy(os.path.join(sd, f), corpus)
                jseed = int(hashlib.sha256(f"{seed}/{pid}/{label}/{j}".encode()).hexdigest()[:8], 16) % 0x7fffffff or 1
                if tg == "strategy_bytes" and not os.listdir(corpus):
                    # no seed files: a few KB of seeded pseudo-random bytes give the strategy something to draw from
                    import random as _r; rr = _r.Random(jseed)
                    for k in range(4): open(os.path.join(corpus, f"r{k}"), "wb").write(bytes(rr.randrange(256) for _ in range(600 * (k + 1))))
                args = [exe, corpus, f"-runs={runs}", f"-seed={jseed}", f"-max_len={cfg['max_len']}", "-len_control=0", f"-timeout={30 if tg == 'strategy_bytes' else 120}",
                        "-rss_limit_mb=4096", "-print_final_stats=1", f"-artifact_prefix={found}/{pid}-fuzz-{label.replace(':', '.')}-"]
                if cfg["dict"]: args.append(f"-dict={os.path.join(ROOT, 'fuzz/dicts', cfg['dict'])}")
                env = dict(os.environ, ACBVERIF_FUZZ_STATS=os.path.join(d, "stats.json"), ACBVERIF_FUZZ_CASES=found, ACBVERIF_FUZZ_PROP=pid, HOME=d, TMPDIR=d, **extra_env)
                env.pop("ACBVERIF_STRICT", None)
                log = open(os.path.join(d, "log.txt"), "wb")
                procs.append((j, jseed, d, subprocess.Popen(args, cwd=d, env=env, stdin=subprocess.DEVNULL, stdout=log, stderr=log)))
            execs = nontriv = corp = cov = entropy_stalls = 0; seeds = []
            for j, jseed, d, p in procs:
                try: rc = p.wait(timeout=7200)
                except subprocess.TimeoutExpired: p.kill(); p.wait(); inconclusive.append(f"{label} job {j}: still running after 7200 s; killed"); rc = None
                text = open(os.path.join(d, "log.txt"), "rb").read().decode("utf-8", "replace")
                m = re.search(r"stat::number_of_executed_units:\s*(\d+)", text); e = int(m.group(1)) if m else 0
                execs += e; seeds.append(jseed)
                ms = re.findall(r"cov: (\d+) ft: \d+ corp: (\d+)", text)
                if ms: cov = max(cov, int(ms[-1][0])); corp += int(ms[-1][1])
                try: st = json.load(open(os.path.join(d, "stats.json"))); nontriv += st["nontrivial"]
                except Exception: pass
                if rc not in (0, None):
                    art = re.search(r"Test unit written to (\S+)", text)
                    why = next((l for l in text.splitlines() if l.startswith("VIOLATION-")), None)
                    if tg == "strategy_bytes" and "ERROR: libFuzzer: timeout" in text: entropy_stalls += 1   # generator ran out of entropy (see STRATEGY_BYTES), not the product
                    elif "ERROR: libFuzzer: timeout" in text or "out-of-memory" in text: inconclusive.append(f"{label} job {j}: libFuzzer timeout/out-of-memory (artifact {art.group(1) if art else '-'})")
                    elif art: violations.append((label, art.group(1), why or "process died without an oracle message"))
                    else: inconclusive.append(f"{label} job {j}: exit {rc} without artifact")
            report[label] = dict(jobs=JOBS, runs_per_job=runs, executions=execs, reached_oracle=nontriv, corpus_units=corp, edges_covered=cov, seeds=seeds[:4])
            if entropy_stalls: report[label]["jobs_ended_early_generator_out_of_entropy"] = entropy_stalls
    finally:
        shutil.rmtree(tmp, ignore_errors=True)
    seen = set(); nviol = 0
    for tg, art, why in violations:
        key = (tg, why.split("\n")[0][:160])
        if key in seen: continue
        seen.add(key); nviol += 1
        print(f"FAIL [fuzz:{tg}] {why[:400]}")
        print(f"VIOLATION property={pid} replay={art}")
    wall = time.time() - t0
    evp = os.path.join(os.environ.get("ACBVERIF_EVIDENCE_DIR", os.path.join(ROOT, "evidence")), f"{pid}.json")
    try:
        ev = json.load(open(evp))
        ev["coverage"]["fuzz"] = dict(note="libFuzzer (-s none, stable toolchain) fixed-work campaigns run after the proptest stage; executions are NOT included in coverage.evaluations; reached_oracle = executions whose input got past parsing/decoding to the semantic check (counted in-target, flushed every 512)", targets=report)
        ev["wall_s"] = round(ev.get("wall_s", 0) + wall, 2)
        ev["violations"] = ev.get("violations", 0) + nviol
        ev["inconclusive"] = list(ev.get("inconclusive", [])) + inconclusive
        json.dump(ev, open(evp, "w"), indent=1)
    except Exception as e:
        inconclusive.append(f"could not merge fuzz coverage into {evp}: {e}")
    tot = sum(r["executions"] for r in report.values())
    print(f"{pid} fuzz: targets={','.join(report)} executions={tot} violations={nviol} inconclusive={len(inconclusive)} wall={wall:.1f}s")
    for m in inconclusive: print(f"inconclusive: {m}")
    return 1 if nviol else (2 if inconclusive else 0)

if __name__ == "__main__": sys.exit(main())
