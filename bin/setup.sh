#!/usr/bin/env bash
# Build everything once from files on disk (offline) and run the harness self-tests.
set -eu
ROOT="$(cd "$(dirname "$0")/.." && pwd)"
export CARGO_NET_OFFLINE=true
cd "$ROOT/harness"
[ -f Cargo.lock ] || cp /repo/Cargo.lock Cargo.lock
mkdir -p target
cargo build --release --offline 2>&1 | grep -v '^warning' | tail -5
VERIF_ROOT="$ROOT" ./target/release/check selftest
