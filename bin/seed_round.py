#!/usr/bin/env python3
"""usage: seed_round.py <N>  — prepares /tmp/seed<N>/<ID>/{prompt.txt,out/,wt/} for every property: a scratch worktree of /repo HEAD and a
prompt that gives a fresh sub-agent the property text plus one line per change already seeded for it (from seeded/*/meta.json), asking for
a change that differs from all of them.  The sub-agent sees nothing of /verif."""
import json, os, subprocess, sys
n = int(sys.argv[1]); root = os.path.dirname(os.path.dirname(os.path.abspath(__file__))); base = f"/tmp/seed{n}"
T = '''You are helping evaluate a verification suite. You work ONLY inside the git worktree {WT} (a checkout of the Rust project tsiemens/acb: a CLI + library computing Canadian adjusted cost base, capital gains and superficial losses from transaction CSVs, with broker importers). Do not read or write anything under /verif or /repo, and do not use the network (it is unavailable; always pass --offline to cargo, e.g. `cargo test --offline`).

Here is one semantic property of the project that is supposed to hold for ALL inputs:

{PROPERTY}
{EXTRA}
Your job: design ONE realistic code change (a bug a maintainer could plausibly introduce in a refactor, optimisation or feature tweak) to the project's source under {WT}/src that BREAKS this property, while
  (1) the project still compiles,
  (2) the existing test suite still passes: `cd {WT} && cargo test --workspace --no-fail-fast --offline` must show no failures other than the pre-existing network-dependent failure `test_sample_csv_file_validity` (that one fails with or without your change; ignore it),
  (3) the breakage is NOT exposed by ordinary everyday use: it must need something specific to manifest, e.g. a particular multi-step sequence of transactions, an unusual-but-valid input (specific day offsets, fractional quantities, several affiliates, several securities, a particular file layout, a particular option combination), a particular ordering, a crash/fault at a particular point, or two cooperating code sites that each look fine alone. Prefer subtle semantic changes (off-by-one in a boundary, wrong operand in a rarely-taken branch, a condition that is too narrow/too wide, state leaking between iterations, an order dependency) over blunt ones.

Deliverables, all written under {OUT}/ :
  - patch.diff : output of `git -C {WT} diff` containing ONLY your change to files under src/ (no new tests inside the patch).
  - a demonstration that FAILS with your change applied and PASSES without it: a Rust integration test file `demo_test.rs` that can be dropped into {WT}/tests/ and run with `cargo test --offline --features testlib,verif_hooks --test demo_test` (use only the crate's public API, e.g. acb::app::run_acb_app_to_render_model / run_acb_app_to_delta_models / run_acb_app_summary_to_model with acb::util::rw::DescribedReader::from_string, acb::fx::io::{RateLoader, InMemoryRatesCache}, acb::fx::io::pub_testlib::MockRemoteRateLoader (needs the cargo feature "testlib"), acb::peripheral::* entry points). Look at the existing files under {WT}/tests and the #[cfg(test)] modules for examples of how to call the API.
  - README.md : 10-20 lines: which clause of the property is broken and how, what exactly is needed for the breakage to manifest (the specific input shape / sequence / option), why the existing tests do not notice, and the exact commands you ran to confirm (a) the existing suite passes with the change, (b) the demo fails with the change, (c) the demo passes without the change (use `git -C {WT} apply -R {OUT}/patch.diff` to take it out and `git -C {WT} apply {OUT}/patch.diff` to put it back).

Work method: read the relevant source files first (the property text names them), pick the change, apply it in {WT}, run the existing tests, write the demo, confirm both directions, then leave the worktree WITH your change applied (uncommitted) and the demo file copied to {OUT}/ (and removed from {WT}/tests). Keep the change small (typically 1-10 lines). Do not weaken or edit existing tests. NEVER use `git stash`, `git commit`, `git checkout <branch>` or any other command that changes shared repository state: this worktree shares its .git with other people's worktrees; use only `git diff`, `git apply`, `git apply -R` and `git checkout -- <file>` inside {WT}. When done, reply with a 5-line summary (file/function changed, trigger condition, demo command, test-suite result).
'''
props = {}
for l in open(os.path.join(root, "properties.jsonl")):
    j = json.loads(l); props[j["id"]] = j
for id in sorted(props):
    d = f"{base}/{id}"; os.makedirs(d + "/out", exist_ok=True)
    if not os.path.exists(d + "/wt"):
        subprocess.check_call(["git", "-C", "/repo", "worktree", "add", "--detach", d + "/wt", "HEAD"], stdout=subprocess.DEVNULL, stderr=subprocess.DEVNULL)
    prev = []
    for sd in sorted(os.listdir(os.path.join(root, "seeded"))):
        if sd != id and not sd.startswith(id + "-"): continue
        mp = os.path.join(root, "seeded", sd, "meta.json")
        if not os.path.exists(mp): continue
        m = json.load(open(mp))
        files = [l.split()[-1][2:] for l in open(os.path.join(root, "seeded", sd, "patch.diff")) if l.startswith("+++ ")]
        prev.append(f"  - file {files[0]}: {m['breaks']} (needed: {m['needs_to_manifest']}).")
    extra = ""
    if prev:
        extra = f"\nIMPORTANT: {len(prev)} other engineers have already produced the following changes for this property, so yours must differ from ALL of them in code site and in mechanism. Read the property statement clause by clause (and its quantifier: inputs, configurations, options, orders; and the list of anchored files/mechanisms/state) and pick a clause, an option combination, a front end, an output mode or an input dimension that none of these touches. Be creative about WHERE the property can break: input parsing, option handling, date handling, ordering, rendering, caches, the other binaries, interactions between two features, rarely used cells or flags:\n" + "\n".join(prev) + "\n"
    open(d + "/prompt.txt", "w").write(T.replace("{WT}", d + "/wt").replace("{OUT}", d + "/out").replace("{PROPERTY}", json.dumps(props[id], indent=1)).replace("{EXTRA}", extra))
print("prepared", base)
