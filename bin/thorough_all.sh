#!/usr/bin/env bash
# usage (background run from a snapshot): vp run --with-repo --timeout 8h -- bash bin/thorough_all.sh [IDs...]
# Runs the thorough tier of every check (or the given ones) one after the other against a private snapshot of /repo's HEAD
# ($VP_RUN_REPO), so that experiments in /repo itself do not disturb it.  Results of such a run are not evidence.
set -u
cd "$(dirname "$0")/.."
if [ -n "${VP_RUN_REPO:-}" ]; then sed -i "s#\"/repo#\"$VP_RUN_REPO#g" harness/Cargo.toml fuzz/Cargo.toml; cp "$VP_RUN_REPO/Cargo.lock" harness/Cargo.lock; fi
IDS="${*:-C01 C02 C03 C04 C05 C06 C07 C08 C09 C10 C11 C12 C13 C14 C15 C16 C17 C18 C19 C20}"
for id in $IDS; do
  echo "=== $id thorough $(date +%T)"
  bash bin/check.sh "$id" thorough 2>&1 | grep -E "^C[0-9]+ (thorough|fuzz)|^VIOLATION|^FAIL|^KNOWN-FINDING|inconclusive|INCONCLUSIVE" | cut -c1-400
  echo "rc=${PIPESTATUS[0]}"
done
echo "=== done $(date +%T)"
