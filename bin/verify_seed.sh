#!/usr/bin/env bash
# usage: verify_seed.sh <ID> <dir with wt/ and out/{patch.diff,demo_test.rs|demo.sh}>
# Confirms, in the agent's scratch worktree: patch applies to a clean tree, existing suite passes with it,
# demo fails with it and passes without it.  Prints a one-line verdict.
set -u
ID="$1"; D="$2"; WT="$D/wt"; OUT="$D/out"
cd "$WT" || exit 2
git checkout -q -- . ; git clean -fdq tests src 2>/dev/null
if ! git apply --check "$OUT/patch.diff" 2>/dev/null; then echo "$ID patch-does-not-apply"; exit 1; fi
touched=$(git apply --numstat "$OUT/patch.diff" | awk '{print $3}' | tr '\n' ' ')
git apply "$OUT/patch.diff"
suite=$(cargo test --workspace --no-fail-fast --offline 2>&1 | grep -E "^test .* FAILED|^test result: FAILED|error(\[|:)" | grep -v test_sample_csv_file_validity | grep -v "^test result: FAILED. 0 passed; 1 failed" | grep -v "target failed" | head -3 | tr "\n" ";")
demo_with="n/a"; demo_without="n/a"
if [ -f "$OUT/demo_test.rs" ]; then
  cp "$OUT/demo_test.rs" tests/demo_test.rs
  cargo test --offline --features testlib,verif_hooks --test demo_test >/tmp/seedlog-$ID.with.log 2>&1; demo_with=$?
  git apply -R "$OUT/patch.diff"
  cargo test --offline --features testlib,verif_hooks --test demo_test >/tmp/seedlog-$ID.without.log 2>&1; demo_without=$?
  rm -f tests/demo_test.rs
elif [ -f "$OUT/demo.sh" ]; then
  (cd "$OUT" && WT="$WT" bash demo.sh) >/tmp/seedlog-$ID.with.log 2>&1; demo_with=$?
  git apply -R "$OUT/patch.diff"
  (cd "$OUT" && WT="$WT" bash demo.sh) >/tmp/seedlog-$ID.without.log 2>&1; demo_without=$?
fi
git checkout -q -- . 
echo "$ID files=[$touched] suite_failures=[${suite}] demo_with_patch_rc=$demo_with demo_without_patch_rc=$demo_without"
