#!/usr/bin/env python3
"""Regenerates seeded/TABLE.md from seeded/*/meta.json."""
import json, os
root = os.path.dirname(os.path.dirname(os.path.abspath(__file__)))
rows = []
for d in sorted(os.listdir(os.path.join(root, "seeded"))):
    p = os.path.join(root, "seeded", d, "meta.json")
    if not os.path.exists(p): continue
    m = json.load(open(p))
    files = [l.split()[-1][2:] for l in open(os.path.join(root, "seeded", d, "patch.diff")) if l.startswith("+++ ")]
    c = list(m["caught_by"].values())[0]
    missed = "missed before" in c
    rows.append(f"| {d} | `{files[0].replace('src/', '')}`: {m['breaks']} | {m['needs_to_manifest']} | {'**missed**, check strengthened, now caught' if missed else 'caught'} | {c} |")
n = len(rows); miss = sum("**missed**" in r for r in rows)
out = f"# Seeded changes ({n}; {n - miss} caught by the property's quick check as it stood, {miss} missed at first and caught after strengthening)\n\n"
out += "Regenerate with `bin/seed_table.py`. Each directory holds patch.diff, the agent's demonstration test, its README and meta.json.\n\n"
out += "| seed | change | needs | own quick check | how it shows |\n|---|---|---|---|---|\n" + "\n".join(rows) + "\n"
open(os.path.join(root, "seeded", "TABLE.md"), "w").write(out)
print(n, miss)
