#!/usr/bin/env python3
"""Regenerates /verif/MANIFEST.json from the table below and validates it against the schema."""
import json, os, subprocess, sys
ROOT = os.path.dirname(os.path.dirname(os.path.abspath(__file__)))
PROPS = [f"C{n:02d}" for n in range(1, 21)]
# id -> (level, technique, text, note, design_ref)
CLAIMED = {
 "C01": ("exploration", "property-based testing against an exact-arithmetic reference model (proptest, model-guided history generator); thorough tier adds a coverage-guided libFuzzer campaign that decodes bytes into the same generator's intents (ledger_intents)",
         "Generated histories (all five actions, several affiliates/securities/currencies, non-terminating quantities, shuffled file order, opening positions) are run through the real CSV->ledger path and every row (shares, all-affiliate shares, ACB, gain, SfL, automatic adjustments) is compared within 1e-9 with an independent exact rational model. Exploration is the right level: the property quantifies over all histories and has an executable oracle.",
         "Trusts harness/src/model.rs (written from the property text; self-tested) and harness/src/bigrat.rs (self-tested against python fractions). Totals kept below 1e13.", "DESIGN.md section 4 C01"),
 "C02": ("exploration", "property-based testing against the reference model with boundary-weighted window scenarios and a deterministic (offset x order x buyer) sweep; thorough tier adds the coverage-guided ledger_intents libFuzzer campaign over the scenario builder",
         "Loss sales with acquisitions, later sales and splits at offsets -61..+61 (every boundary day, same-day before/after) by selling/other/registered affiliates; denied amount, ratio, gain, adjustments and accept/reject of declared values compared with the exact model.",
         "Same trusted base as C01. Declared values on registered sellers are not generated.", "DESIGN.md section 4 C02"),
 "C03": ("exploration", "property-based testing of a model-free accounting identity at every prefix (plus model-based apportioning); thorough tier adds the coverage-guided ledger_intents libFuzzer campaign with the same oracle",
         "For histories of non-registered affiliates the identity gains = proceeds - costs + RoC + ACB held is evaluated exactly after every transaction from the input rows' cash flows and the tool's rows; adjustments never exceed the denied loss, never go to registered affiliates, go only to buyers in the window, pro rata to end-of-window holdings.",
         "Identity needs no model; the pro-rata part trusts model.rs.", "DESIGN.md section 4 C03"),
 "C04": ("exploration", "property-based testing: valid histories must be accepted, histories with one planted cause must be rejected visibly (reference model decides), row invariants on every row; thorough tier adds the coverage-guided ledger_intents libFuzzer campaign on the accept side",
         "Both directions of the iff are explored: generated valid histories (incl. non-terminating split factors) must not be rejected; each listed cause planted at a chosen row must be rejected with a message naming the row, the exact ledger prefix shown, the security excluded from totals, in text, CSV-writer and render-model modes.",
         "Reference model decides which histories contain a listed cause. One known finding (R5, rounding residue after chains of non-terminating splits) is excluded by a root-cause classifier.", "DESIGN.md section 4 C04"),
 "C07": ("exploration", "metamorphic property-based testing: generated input vs generated re-layout (files, columns, headers, unknown columns, admissible row permutation)",
         "Each generated input is rendered once in canonical form and once re-laid-out (1-5 files, permuted/renamed/padded/absent/extra columns, legacy date header, CRLF, admissible row permutation); every cell of every table, footer, aggregate and costs table must agree; file names out of text order, multi-line memos, trade dates moved where they cannot matter, and a half-filled rate cache are part of the re-layouts.",
         "Money figures are compared within 1e-9 and affiliate display spelling / note order are ignored (those are C09's business).", "DESIGN.md section 4 C07"),
 "C08": ("exploration", "metamorphic property-based testing: runs of A, B and A+B over disjoint securities, B optionally failing",
         "Tables of each half must be identical in the combined run; aggregate(A+B) = aggregate(A) + aggregate(B) per year; a failure planted in B (every C04 cause, or a refused split combination) must not change or suppress A; also from a half-filled rate cache, under --force-download over a wrong cache, and in the files of --csv-output-dir (share-class symbols included).",
         "Uses the C04 planting machinery to make B fail.", "DESIGN.md section 4 C08"),
 "C09": ("exploration", "repetition under varying hash seeds: k in-process runs plus the real main in separate processes, byte comparison",
         "The same generated input is run 6 (quick) / 16 (thorough) times in one process (fresh RandomState per HashMap) and through the real acb main in 4 separate processes; text, CSV-directory, total-costs and summary outputs must be byte-identical.",
         "Hash seeds come from the OS, not from VERIF_SEED; detection per non-trivial case is probabilistic, a correct tree cannot fail.", "DESIGN.md section 4 C09"),
 "C16": ("exploration", "differential property-based testing: -b opening positions vs prepended opening purchases; malformed specifications",
         "Every row of the original input must show the same figures under '-b SYM:n:c' and under a prepended Buy (n shares, total cost c, default affiliate, 400 days earlier); opening positions of absent symbols change nothing; malformed strings are rejected (library) and rejected before any file is opened (binary).",
         "Zero-share opening positions are compared with no purchase.", "DESIGN.md section 4 C16"),
 "C06": ("exploration", "property-based testing with exact re-summation of full-precision cells and a two-run (default vs full precision) differential",
         "Yearly figures, table totals, aggregate years and 'Since inception' are recomputed exactly from the full-precision gain cells (by settlement year, error-free securities only); every money figure of the default rendering must equal the full-precision figure rounded half away from zero; the text front end must show every cell line as often as the tables have it; the stream CSV writer and the real --csv-output-dir files (also when written over a longer earlier run) must carry every record of every table as often as the tables have it.",
         "Figures are read from the render model (the web UI's source) with a tokenizer for $-amounts and '(x CUR)' amounts.", "DESIGN.md section 4 C06"),
 "C17": ("exploration", "property-based testing against an independent recomputation from the tool's own per-row ledger",
         "Total-costs and yearly-max tables are recomputed from the TxDeltas of the same run (default affiliate: day maximum, else closing cost of the most recent earlier day, else opening cost) and compared cell by cell; ties for a yearly maximum accept any tied day.",
         "Only error-free inputs (as the property states).", "DESIGN.md section 4 C17"),
 "C15": ("exploration", "metamorphic property-based testing: history vs history with an inserted split and restated later rows",
         "Window scenarios built so that the restated history is exactly representable (quantities multiples of 3, later per-share amounts multiples of a) are run with and without an a-for-b split (16 ratios: forward, reverse, fractional; one row for all or one per affiliate; any position relative to the loss sale's window); gains, superficial losses, total ACB and adjustments must agree and share balances scale by a/b.",
         "Base histories contain no other split. Differences explained by the recorded rounding-residue findings (R1b/R5) are excluded by their classifiers.", "DESIGN.md section 4 C15"),
 "C11": ("exploration", "round-trip property-based testing (write -> read -> compare -> write -> compare bytes); thorough tier adds reader-first libFuzzer campaigns (structure-aware csv_cells, byte-level csv_roundtrip) checking R(W(R(b))) = R(b)",
         "Generated lists of valid transactions (all actions, 28-digit decimals, every affiliate spelling, split-ratio forms, declared SfL with force flag, hostile memos) are written with write_txs_to_csv, re-read with parse_tx_csv + Tx::try_from, compared field by field, and written again; the bytes must repeat.",
         "Transactions are built through the library's own public types; split-ratio terms below 1e9.", "DESIGN.md section 4 C11"),
 "C12": ("exploration", "property-based testing against a 15-line reference function over generated publication calendars served by a fake Bank of Canada endpoint",
         "Calendars with holidays, exact gaps of 5-12 days, gaps across New Year, empty years and malformed observations are served as valet JSON; look-ups at gap edges, year edges and around today, and rows with every currency/rate combination, must get exactly the documented rate or an error.",
         "The fake endpoint follows the documented JSON schema; network-level failures are not explored.", "DESIGN.md section 4 C12"),
 "C13": ("exploration", "model-based (stateful) property-based testing: histories of runs and look-ups against a cache-free reference loader",
         "Sequences of runs (own today, force flag, monotone remote data) and look-ups in any order share an in-memory cache and a real CSV cache directory; every answer must equal the answer of a fresh cache-free loader; downloads per (run, year) are counted.",
         "The remote always contains everything published before the run's today (premise of the property).", "DESIGN.md section 4 C13"),
 "C14": ("fault_enumeration", "exhaustive crash-point enumeration through feature-gated hooks (every byte offset and step boundary of the cache write) over generated year contents",
         "For each generated year content and prior cache state the write is interrupted at every byte offset and every step (create, flush, sync, rename); a later run must never compute with a rate differing from the published one: every post-crash answer is compared, date and rate, with the answer of a run that has no cache directory. Multi-run variants: crash then a shorter complete write, two crashes in a row, a crash then a complete run that only needs another year, first downloads of a completed year.",
         "Operations persist in program order; filesystems reordering un-synced writes are outside the model. Contents are sampled, crash points per content are exhaustive.", "DESIGN.md section 4 C14"),
 "C05": ("exploration", "property-based testing (structured-then-damaged CSV x options, domain-edge values) with a panic/abort oracle, plus coverage-guided libFuzzer targets in the thorough tier",
         "Valid generated inputs are damaged by 0-5 mutations (columns, cells, quoting, encoding, truncation) and combined with every option; fields at the edges of the stated numeric domain are combined in short histories; each run must return a report or a non-empty diagnostic naming a file, row, security or option, and never panic/abort (in-process hook + catch_unwind; a sample through the real binary).",
         "'Never loops' is only observable through the watchdog (inconclusive, not a violation). Two panics are recorded as known findings (F-05c product overflow, F-05e division overflow on rounding residue).", "DESIGN.md section 4 C05"),
 "C10": ("exploration", "round-trip property-based testing: history -> summary CSV (text) -> re-run with the later rows, compared row by row with the full run",
         "Error-free histories x every interesting cut date x both summary modes; the summary is written to CSV text, fed back with the rows settling after the cut (histories include declared / forced superficial losses, years netting to zero, late-starting affiliates), and every later row, the final holdings and (annual) the yearly net gains must agree with the full run.",
         "One known finding (K3, annual loss rows hit by the 30-day rule) is excluded by a classifier on its direct root-cause observation; rounding-residue cases (R5) by theirs.", "DESIGN.md section 4 C10"),
 "C18": ("exploration", "property-based testing against the generator's own record (multiset equality, exact cash conservation) plus a layout metamorphic relation",
         "Generated well-formed Questrade exports (all activity kinds, FXT pairs, accounts, currencies, alias symbol) in generated column layouts (permuted, extra, blank-headed, numeric cells) go through sheet_to_txs in memory and, for a sample, through a real .xlsx and run_with_args with its options; emitted rows, the signed USD.FX total, layout independence, ordering and acceptance by acb are checked.",
         "Numeric cells use the same f64->Decimal conversion on both sides; ledger-level acceptance of USD.FX is not claimed.", "DESIGN.md section 4 C18"),
 "C19": ("exploration", "scenario-first property-based testing with a validity-predicate oracle (exact partition search) over the output CSV",
         "Generated sets of RSU / ESPP / option-exercise confirmations and trade confirmations (pre- and post-2023 layouts, benefits close together, equal share counts, extra manual sales, shuffled file names) are rendered as .txt and run through run_with_args; the output must contain one purchase per benefit, every manual row must equal a distinct trade, and the remaining trades must be partitionable into one valid group per sell-to-cover row.",
         "Layouts are those of the repository's fixtures; the tool's own 'cannot match / cannot decide' errors are accepted outcomes.", "DESIGN.md section 4 C19"),
 "C20": ("exploration", "property-based testing of the statement parser against generated tables, plus generated/exhaustive page-hint cases through real lopdf-generated PDFs",
         "Generated allocation tables in the documented layout (multi-line descriptions with digits, single 100% holding, figures on own line) must be returned holding by holding with total and month; page counts x hint groups (out of range, duplicate, unsorted) must yield every existing page once with its own text through safe_page_chunks_with_remainder_pn and OptimizedPageIter over real PDFs; the chunk helper is swept exhaustively within stated bounds.",
         "One known finding (F-20b: descriptions ending in two bare numbers on a single 100% holding) is excluded by a stated ambiguity predicate.", "DESIGN.md section 4 C20"),
}
NOT_YET = "check not built yet in this round (planned: see DESIGN.md section 4)"

def main():
    checks = []
    for pid in PROPS:
        if pid not in CLAIMED: continue
        level, tech, text, note, ref = CLAIMED[pid]
        checks.append({
            "property_id": pid,
            "quick_cmd": f"bash bin/check.sh {pid} quick",
            "thorough_cmd": f"bash bin/check.sh {pid} thorough",
            "evidence_file": f"/verif/evidence/{pid}.json",
            "replay_cmd_template": f"harness/target/release/check {pid} --replay {{path}}",
            "engine": "acbverif",
            "level_claimed": {"category": level, "text": text, "design_ref": ref},
            "level_note": note,
            "technique": tech,
        })
    hooks_commits = subprocess.run(["git", "-C", "/repo", "log", "--format=%H", "--grep=^verif_hooks"], capture_output=True, text=True).stdout.split()
    m = {
        "version": 1,
        "setup_cmd": "bash bin/setup.sh",
        "hooks": {
            "guard": "cargo feature verif_hooks (declared in /repo/Cargo.toml; off by default)",
            "enable": "harness/Cargo.toml depends on acb = { path = \"/repo\", features = [\"default\", \"testlib\", \"verif_hooks\"] }; only C14 uses the hooks (crash injection in the rates cache write path)",
            "baseline_off_cmd": "cd /repo && cargo test --workspace --no-fail-fast --offline",
            "source_commits": hooks_commits,
            "add_only": True,
        },
        "engines": [
            {"name": "acbverif", "path": "harness", "serves_properties": [c["property_id"] for c in checks], "kind_free_text": "Rust crate linking the real acb library from /repo; proptest 1.11 driven from a binary (fixed seeds, 16 worker processes, shrinking, JSON replay files, known-findings classifiers); exact BigRational reference model"},
        ],
        "checks": checks,
        "notes": "Known findings and fixed defects: known_findings.json. Replays of violations: replays/found/ (not committed); regression inputs: replays/regress/. DESIGN.md sections 7 and 11 list findings and which seeded changes each check catches.",
        "not_applicable": [{"property_id": p, "reason": NOT_YET} for p in PROPS if p not in CLAIMED],
    }
    path = os.path.join(ROOT, "MANIFEST.json")
    json.dump(m, open(path, "w"), indent=1)
    try:
        import jsonschema
        jsonschema.validate(m, json.load(open("/root/.vp/MANIFEST.schema.json")))
        print("MANIFEST.json valid;", len(checks), "checks")
    except ImportError:
        print("jsonschema not importable here; run with python3-vt")
if __name__ == "__main__": main()
